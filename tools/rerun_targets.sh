#!/bin/bash
# rerun_targets.sh [names...] — every seeded change (or the named ones) against its TARGET check only (quick tier);
# writes seeded/TARGETS.md. Patches /repo's working tree: nothing else may touch /repo or run checks meanwhile.
OUT=/verif/seeded/TARGETS.md
echo "# Seeded changes vs their target check (quick tier, $(date -u +%F))" > $OUT
echo "" >> $OUT
echo "| seeded change | target | outcome | first signature |" >> $OUT
echo "|---|---|---|---|" >> $OUT
[ $# -eq 0 ] && set -- $(cd /verif/seeded && ls -d */ | tr -d /)
for n in "$@"; do
  d=/verif/seeded/$n; [ -f $d/meta.json ] || continue
  prop=$(python3 -c "import json;print(json.load(open('$d/meta.json'))['breaks_property'])")
  cd /repo; [ -z "$(git status --porcelain)" ] || { echo "repo dirty"; exit 2; }
  git apply $d/patch.diff || { echo "| $n | $prop | PATCH DOES NOT APPLY | |" >> $OUT; continue; }
  o=$(cd /verif && bin/check $prop quick 2>&1); rc=$?
  sig=$(echo "$o" | grep -m1 "signature=" | sed 's/.*signature=//' | cut -c1-90)
  case $rc in 0) r="missed";; 1) r="CAUGHT";; *) r="broken($rc)";; esac
  echo "| $n | $prop | $r | \`$sig\` |" >> $OUT
  echo "$n $prop $r"
  git -C /repo checkout -- . ; git -C /repo clean -fdq
done
