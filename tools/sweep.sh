#!/bin/bash
# sweep.sh [tier] [ids...] — runs the registered checks one after another on /repo as it stands and prints
# one line per property (exit code, seconds, first VIOLATION / KNOWN-FINDING count). Exit 1 if any check
# exits non-zero.
TIER="${1:-quick}"; shift
[ $# -eq 0 ] && set -- C01 C02 C03 C04 C05 C06 C07 C08 C09 C10 C11 C12 C13 C14 C15 C16 C17 C18 C19 C20
bad=0
for id in "$@"; do
  s=$(date +%s)
  o=$(cd /verif && bin/check $id $TIER 2>&1); rc=$?
  e=$(( $(date +%s) - s ))
  v=$(echo "$o" | grep -c "^VIOLATION")
  k=$(echo "$o" | grep -c "^KNOWN-FINDING")
  echo "$id rc=$rc ${e}s violations=$v known=$k"
  [ $rc -ne 0 ] && { bad=1; echo "$o" | grep -m3 -E "^VIOLATION|BROKEN|inconclusive" ; }
done
exit $bad
