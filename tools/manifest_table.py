HOOK_COMMITS = "8e41332bb1a39e82bb9c75399978524fbb9b003b 152cb16d1ae96dd1086424d8901adb795cc725c7 b96d1383bbaccc1c0f05a95e208d9e29bd19c14b 4aa26a0e1e186c35bf6b93432a321400a9de57c6 ".split()

ALL = ["C%02d" % i for i in range(1, 21)]

CHECKS = [
 {"id": "C03",
  "technique": "runtime monitoring: stepwise drive of the real engine + reference token game compared at every quiescent point (goroutine census), token conservation over the trace log",
  "text": "Exhaustive enumeration of all N,M in 1..4, all N! upstream finishing orders and 1..3 activations, each executed on the real engine and compared with a reference token game at every quiescent point; plus perturbed concurrent (storm) runs. Held on the executions observed; says nothing about schedules that did not occur.",
  "note": "Trusted: the reference token game (internal/refsem), the quiescence oracle (all labelled goroutines blocked in two consecutive stop-the-world snapshots; workloads have no timers), Go 1.26.8 traceback labels.",
  "ref": "DESIGN.md 3/C03"},
]

_claimed = {c["id"] for c in CHECKS}
NOT_APPLICABLE = [{"property_id": p, "reason": "check not built yet in this session (planned, see DESIGN.md section 3); not a limitation of the technique"} for p in ALL if p not in _claimed]
