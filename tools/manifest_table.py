HOOK_COMMITS = "8e41332bb1a39e82bb9c75399978524fbb9b003b 152cb16d1ae96dd1086424d8901adb795cc725c7 b96d1383bbaccc1c0f05a95e208d9e29bd19c14b 4aa26a0e1e186c35bf6b93432a321400a9de57c6 ".split()

ALL = ["C%02d" % i for i in range(1, 21)]

NOTE = "Trusted: the reference token game (internal/refsem) as oracle for observed requests, the quiescence oracle (all goroutines carrying the case's pprof label blocked in two consecutive stop-the-world snapshots; workloads have no real timers), Go 1.26.8 traceback labels. Held on the executions observed; says nothing about schedules that did not occur."

CHECKS = [
 {"id": "C01",
  "technique": "runtime monitoring: stepwise and storm drive of the real engine on generated programs, reference token game compared at every quiescent point (goroutine census), trace-grammar monitor",
  "text": "Generated block-structured programs (every legal nesting pair + PRNG programs) x data assignments x answer orders executed on the real engine; requests, end events, error traces, variables and completion compared with a reference token game at every quiescent point; storm runs with perturbation hooks. Exploration only.",
  "note": NOTE, "ref": "DESIGN.md 3/C01"},
 {"id": "C02",
  "technique": "runtime monitoring: enumerated start/wait histories on the real engine, waiter returns and cease-flow trace checked against the reference at quiescent points",
  "text": "Full grid of start-event counts, shapes, start modes, waiter counts/attachment points/expired-wait histories and start-up hook delays; each executed and checked at every quiescent point (no true/cease before completion, every waiter released and exactly one cease-flow trace at completion).",
  "note": NOTE, "ref": "DESIGN.md 3/C02"},
 {"id": "C03",
  "technique": "runtime monitoring: stepwise drive of the real engine + reference token game compared at every quiescent point (goroutine census), token conservation over the trace log",
  "text": "Exhaustive enumeration of all N,M in 1..4, all N! upstream finishing orders and 1..3 activations, each executed on the real engine and compared with a reference token game at every quiescent point; plus perturbed concurrent (storm) runs.",
  "note": NOTE, "ref": "DESIGN.md 3/C03"},
 {"id": "C04",
  "technique": "runtime monitoring: exhaustive input grid executed on the real engine, closed-form oracle over observed requests / flow traces / error traces at quiescent points",
  "text": "Exhaustive grid (k, default position, truth assignment, 1..3 concurrent tokens, expression language / data source) executed on the real engine; branch requested, flow-trace count and error trace compared with the closed-form rule; storm variants perturb the probe hand-shake.",
  "note": NOTE, "ref": "DESIGN.md 3/C04"},
 {"id": "C05",
  "technique": "runtime monitoring: exhaustive fork/join grid on the real engine, window oracle (lower/upper bound of the join release) over requests observed at quiescent points",
  "text": "Exhaustive grid (branches, truth assignments, default, which branches reach the join, finishing orders) executed on the real engine: fork requests checked exactly, join release checked against the window the statement gives; storm variants with tracker hooks.",
  "note": NOTE, "ref": "DESIGN.md 3/C05"},
 {"id": "C07",
  "technique": "runtime monitoring: cancellation injected at every trace index, goroutine census by pprof label at the quiescent point (leaks, blocked waiters), spin sampling, channel-closure checks",
  "text": "For a corpus of programs covering every node kind, the context is cancelled after k received traces (k = 0..70 and at the resting state), one process per case; at the quiescent point after cancel() no engine goroutine of the instance may be left, tracer and subscriber channels must be closed, waiters returned, nothing spinning, late task requests carry a cancelled context.",
  "note": NOTE, "ref": "DESIGN.md 3/C07"},
 {"id": "C12",
  "technique": "runtime monitoring: differential stepwise runs (program wrapped in sub-processes vs inlined) on the real engine + reference token game at every quiescent point",
  "text": "Programs with a PRNG-chosen block wrapped in 1..3 sub-process levels are executed stepwise against the reference and differentially against the unwrapped program (same answer order, same pending requests after every step); storm runs.",
  "note": NOTE, "ref": "DESIGN.md 3/C12"},
 {"id": "C06",
  "technique": "runtime monitoring: enumerated event histories delivered sequentially and concurrently to the real engine, request/determination counters at quiescent points, blocked-caller census",
  "text": "All event sequences up to length 4 over 2..3 alternatives (+stranger), sequential and concurrent delivery with determination hooks: exactly one branch continues (the first delivered one when sequential), one determination trace, instance completes, late deliveries without effect, no blocked ConsumeEvent caller.",
  "note": NOTE, "ref": "DESIGN.md 3/C06"},
 {"id": "C08",
  "technique": "runtime monitoring: Do call/return histories checked with porcupine (write-once register) + blocked-caller census + observed storage/continuation counters at quiescent points",
  "text": "Answer histories (1..3 Do calls, sequential/concurrent, payload kinds, declared/undeclared names, error handler modes, retry counts, success attempt) executed on the real engine; effective answer linearizable with 'first Do wins', no Do blocks, declared-only storage, downstream visibility, error-mode continuation counts.",
  "note": NOTE + " porcupine v1.3.0 as history checker.", "ref": "DESIGN.md 3/C08"},
 {"id": "C10",
  "technique": "runtime monitoring: enumerated event/answer histories on the real engine compared with a boundary-event reference at every quiescent point; racing variants with outcome-set oracle",
  "text": "Host task/sub-process x 1..2 boundary events x interrupting or not x all histories up to length 4, plus races of event vs answer; exception/normal path request counts compared with the reference after every step; known engine defects (recorded in known_findings.json by rule and scenario) are reported as KNOWN-FINDING.",
  "note": NOTE, "ref": "DESIGN.md 3/C10"},
 {"id": "C11",
  "technique": "runtime monitoring: enumerated and PRNG event histories on the real engine compared with the reference (armed listeners) at every quiescent point, blocked-caller census for ConsumeEvent",
  "text": "Catch events in sequence / parallel / twin listeners / behind a task / on a branch never taken, signal and message definitions, all histories up to length 4 and PRNG histories up to 8: matching armed listeners continue exactly once, nothing else reacts, delivery never blocks.",
  "note": NOTE, "ref": "DESIGN.md 3/C11"},
]

_claimed = {c["id"] for c in CHECKS}
NOT_APPLICABLE = [{"property_id": p, "reason": "check not built yet in this session (planned, see DESIGN.md section 3); not a limitation of the technique"} for p in ALL if p not in _claimed]
