#!/usr/bin/env python3
"""gen_mutants.py [seed] [per_file_cap]  — prints a JSON list of single-line syntactic mutants of the engine's
non-test, non-generated sources: {file, line, op, old, new}. Self-validation tooling (DESIGN.md section 5):
the LLM-made seeded changes are biased towards what a model finds plausible; these are the mechanical kind.
Operators: relational flip / boundary, && <-> ||, true <-> false, +1/-1 on small constants, channel
buffer 1 -> 0, statement deletion for calls on their own line (Store, Done, Unlock+Lock pairs are left
alone: deleting one half deadlocks), `continue`/`break`/`return` deletion, `!` removal, `if cond` -> `if !(cond)`."""
import json, os, random, re, sys

seed = int(sys.argv[1]) if len(sys.argv) > 1 else 1
cap = int(sys.argv[2]) if len(sys.argv) > 2 else 12
R = random.Random(seed)
ROOT = "/repo"
FILES = """activity.go engine.go event_catch.go event_end.go event_start.go event_throw.go flow.go flow_action.go
flow_mapping.go flow_node.go flow_wiring.go gateway.go gateway_event_based.go gateway_exclusive.go gateway_inclusive.go
gateway_parallel.go id_generator_default.go process.go process_set.go retry.go sequence_flow.go subprocess.go task_generic.go
pkg/clock/mock.go pkg/data/container.go pkg/data/data.go pkg/data/impl.go pkg/event/consumer.go pkg/event/definition_instance.go
pkg/event/events.go pkg/event/fanout.go pkg/expression/expr/expr.go pkg/expression/xpath/xpath.go pkg/id/fallback.go pkg/id/sno.go
pkg/logic/catch_event.go pkg/logic/throw_event.go pkg/timer/event.go pkg/timer/timer.go pkg/tracing/retry.go pkg/tracing/tracer.go
pkg/tracing/tracing.go model/model.go model/start_event_consumer.go schema/builder.go schema/schema.go schema/schema_item.go
schema/instantiators.go""".split()

def muts_for_line(l):
    out = []
    code = l.split("//")[0]
    if not code.strip() or code.strip().startswith(("import", "package", "\"", "func ", "type ", "}")):
        return out
    if "verifhook" in code:
        return out
    for a, b in [(" == ", " != "), (" != ", " == "), (" < ", " <= "), (" <= ", " < "), (" > ", " >= "), (" >= ", " > "),
                 (" && ", " || "), (" || ", " && ")]:
        i = code.find(a)
        if i >= 0 and "err != nil" not in code[max(0, i - 4):i + 8] and "err == nil" not in code[max(0, i - 4):i + 8]:
            out.append(("flip" + a.strip(), l[:i] + b + l[i + len(a):]))
    for a, b in [("true", "false"), ("false", "true")]:
        m = re.search(r"\b%s\b" % a, code)
        if m:
            out.append((a + "->" + b, l[:m.start()] + b + l[m.end():]))
    m = re.search(r"([-+] )1\b", code)
    if m:
        out.append(("off-by-one", l[:m.start()] + l[m.end():].lstrip()))
    m = re.search(r"make\(chan [^,)]+, 1\)", code)
    if m:
        out.append(("unbuffer", l[:m.start()] + m.group(0).replace(", 1)", ")") + l[m.end():]))
    s = code.strip()
    if re.fullmatch(r"(continue|break)", s):
        out.append(("del-" + s, l.replace(s, "", 1)))
    if re.fullmatch(r"[A-Za-z_][\w.\[\]()&*]*\.(Store|Add|Done|Delete|Reset|Step|Unsubscribe|Send|Cancel)\(.*\)", s) or re.fullmatch(r"(close|delete|cancel)\(.*\)", s):
        out.append(("del-stmt", l.replace(s, "", 1)))
    m = re.search(r"\bif !([A-Za-z_][\w.()\[\]]*) {", code)
    if m:
        out.append(("drop-not", l.replace("if !" + m.group(1), "if " + m.group(1), 1)))
    else:
        m = re.search(r"\bif ([A-Za-z_][\w.]*(\([^()]*\))?) {", code)
        if m and m.group(1) not in ("ok", "found", "present", "err"):
            out.append(("add-not", l.replace("if " + m.group(1), "if !" + m.group(1), 1)))
    return out

res = []
for f in FILES:
    p = os.path.join(ROOT, f)
    if not os.path.exists(p):
        continue
    lines = open(p).read().split("\n")
    cands = []
    incomment = False
    for i, l in enumerate(lines):
        if "/*" in l:
            incomment = True
        if incomment:
            if "*/" in l:
                incomment = False
            continue
        for op, new in muts_for_line(l):
            if new != l:
                cands.append({"file": f, "line": i + 1, "op": op, "old": l, "new": new})
    R.shuffle(cands)
    res.extend(cands[:cap])
json.dump(res, sys.stdout, indent=0)
