#!/bin/bash
# run_mutants.sh <mutants.json> <out.tsv> [from] [to]
# For each mechanical mutant: patch /repo's working tree, build (tag off and on), run the pinned suite (mutants
# it kills are of no interest), then the registered quick checks, the ones nearest to the mutated file first,
# stopping at the first that reports a violation. Always reverts. Patches /repo: nothing else may use /repo
# or run checks meanwhile; stops cleanly between mutants when /tmp/mutlab.stop exists.
set -u
M="$1"; OUT="$2"; FROM="${3:-0}"; TO="${4:-100000}"
export GOPROXY=off GOSUMDB=off GOTOOLCHAIN=local
ALL="C16 C02 C08 C19 C20 C04 C03 C10 C15 C18 C09 C11 C05 C12 C01 C06 C14 C07 C17 C13"
near() {
  case "$1" in
    gateway_parallel.go) echo "C03 C01 C12";;
    gateway_exclusive.go) echo "C04 C01";;
    gateway_inclusive.go) echo "C05 C01";;
    gateway_event_based.go) echo "C06 C11";;
    gateway.go) echo "C01 C05 C03 C04";;
    flow*.go|sequence_flow.go) echo "C01 C04 C08 C09 C07 C03";;
    process.go|engine.go) echo "C02 C07 C11 C18 C01 C20";;
    process_set.go) echo "C18 C17 C07";;
    event_*.go) echo "C11 C14 C10 C06 C13 C02 C18";;
    activity.go|task_generic.go|retry.go) echo "C08 C10 C07 C01";;
    subprocess.go) echo "C12 C01 C07 C11";;
    pkg/tracing/*) echo "C09 C07 C02 C08";;
    pkg/timer/*|pkg/clock/*) echo "C13 C07";;
    pkg/logic/*) echo "C14";;
    pkg/id/*|id_generator_default.go) echo "C20";;
    pkg/data/*|schema/schema_item.go) echo "C16 C08 C15 C01";;
    pkg/event/*) echo "C11 C14 C13 C18";;
    pkg/expression/*) echo "C04 C01 C05";;
    model/*) echo "C14 C18 C11";;
    schema/builder.go) echo "C19";;
    schema/*) echo "C15 C19 C01";;
    *) echo "";;
  esac
}
n=$(python3 -c "import json;print(len(json.load(open('$M'))))")
for ((i=FROM; i<n && i<TO; i++)); do
  [ -e /tmp/mutlab.stop ] && { echo "stopped before $i"; break; }
  cd /repo; [ -z "$(git status --porcelain)" ] || { echo "repo dirty"; exit 2; }
  eval "$(python3 - "$M" "$i" <<'EOF'
import json,sys,shlex
m=json.load(open(sys.argv[1]))[int(sys.argv[2])]
p='/repo/'+m['file']
ls=open(p).read().split('\n')
assert ls[m['line']-1]==m['old']
ls[m['line']-1]=m['new']
open(p,'w').write('\n'.join(ls))
print("F=%s; L=%d; OP=%s"%(shlex.quote(m['file']),m['line'],shlex.quote(m['op'])))
EOF
)"
  res=""; by=""
  if ! (go build ./... && go build -tags verif ./... && cd schema && go build ./...) >/dev/null 2>&1; then
    res="nocompile"
  else
    cd /repo
    if ! (timeout 300 go test -vet=off -count=1 ./... && cd schema && timeout 300 go test -vet=off -count=1 ./...) >/tmp/mutlab.suite 2>&1; then
      res="killed-by-suite"
    else
      order="$(near "$F")"
      for c in $ALL; do case " $order " in *" $c "*) ;; *) order="$order $c";; esac; done
      res="SURVIVED"
      for c in $order; do
        o=$(cd /verif && bin/check $c quick 2>&1); rc=$?
        if [ $rc -ne 0 ]; then
          res="caught"; by="$c $(echo "$o" | grep -m1 "signature=" | sed 's/.*signature=//' | cut -c1-80)"
          [ $rc -ne 1 ] && by="$c broken($rc) $(echo "$o" | tail -1 | cut -c1-80)"
          break
        fi
      done
    fi
  fi
  git -C /repo checkout -- . ; git -C /repo clean -fdq
  printf "%d\t%s:%d\t%s\t%s\t%s\n" "$i" "$F" "$L" "$OP" "$res" "$by" | tee -a "$OUT"
done
