#!/usr/bin/env python3
"""Regenerates /verif/MANIFEST.json from the table below and validates it."""
import json, subprocess, sys
sys.path.insert(0, '/verif/tools')
from manifest_table import CHECKS, NOT_APPLICABLE, HOOK_COMMITS

def main():
    checks = []
    for c in CHECKS:
        checks.append({
            "property_id": c["id"],
            "quick_cmd": f"bin/check {c['id']} quick",
            "thorough_cmd": f"bin/check {c['id']} thorough",
            "evidence_file": f"/verif/evidence/{c['id']}.json",
            "replay_cmd_template": f"bin/check {c['id']} quick --replay {{path}}",
            "engine": "harness",
            "level_claimed": {"category": "exploration", "text": c["text"], "design_ref": c.get("ref", "DESIGN.md section 3")},
            "level_note": c["note"],
            "technique": c["technique"],
        })
    m = {
        "version": 1,
        "setup_cmd": "bin/setup",
        "hooks": {
            "guard": "verif",
            "enable": "go1.26.8 build -tags verif (harness module /verif/harness replaces github.com/olive-io/bpmn/v2 => /repo, so every check rebuilds /repo's working tree with the tag on)",
            "baseline_off_cmd": "cd /repo && go test -json -vet=off -count=1 -timeout 25m ./... && cd /repo/schema && go test -json -vet=off -count=1 -timeout 25m ./...",
            "source_commits": HOOK_COMMITS,
            "add_only": True,
        },
        "engines": [{
            "name": "harness", "path": "/verif/harness",
            "serves_properties": [c["id"] for c in CHECKS],
            "kind_free_text": "Go module: orchestrator (cmd/vcheck) + child worker processes (cmd/worker) driving the real engine under labelled goroutines; runtime monitors over trace/event logs, goroutine census (quiescence, leaks, blocked callers), reference token game as oracle, porcupine, Go race detector",
        }],
        "checks": checks,
        "not_applicable": NOT_APPLICABLE,
        "notes": "Runtime monitoring only: every verdict comes from observing executions of the real code. Known findings: /verif/known_findings.json. Replays: /verif/replay/.",
    }
    json.dump(m, open('/verif/MANIFEST.json', 'w'), indent=1)
    try:
        import jsonschema
        jsonschema.validate(m, json.load(open('/root/.vp/MANIFEST.schema.json')))
        print("MANIFEST.json valid,", len(checks), "checks,", len(NOT_APPLICABLE), "not applicable")
    except ImportError:
        print("jsonschema not available; written unchecked")

main()
