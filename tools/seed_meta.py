#!/usr/bin/env python3
"""seed_meta.py <name> <property> <needs> <demo file> <demo dest> <checks comma-separated> [history note]  — writes /verif/seeded/<name>/meta.json"""
import json,sys
name,prop,needs,demo,dest,checks=sys.argv[1:7]
history=sys.argv[7] if len(sys.argv)>7 else None
m={"name":name,"breaks_property":prop,"needs_to_manifest":needs,"demonstration":demo,"demonstration_goes_to":dest,
   "origin":"fresh sub-agent given only the property text and a scratch worktree",
   "confirmed":"tools/confirm_seed.sh: suite passes with the change; demonstration fails with it and passes without it (fresh scratch worktree)",
   "checks_to_run":checks.split(",")}
if history: m["history"]=history
json.dump(m,open('/verif/seeded/%s/meta.json'%name,'w'),indent=1)
print("meta written",name)
