#!/usr/bin/env python3
"""mk_seed_prompt.py <prop id> <tag> [focus text]
Creates a scratch worktree /tmp/seedwt/<tag> of /repo HEAD and prints the prompt for a fresh
sub-agent: the property record (text only) + where to work + what to deliver. Nothing from /verif
other than the given property record goes into the prompt."""
import json, subprocess, sys, os

pid, tag = sys.argv[1], sys.argv[2]
focus = sys.argv[3] if len(sys.argv) > 3 else ""
prop = None
for l in open('/verif/properties.jsonl'):
    p = json.loads(l)
    if p['id'] == pid:
        prop = p
wt = f"/tmp/seedwt/{tag}"
out = f"/tmp/seedout/{tag}"
os.makedirs("/tmp/seedwt", exist_ok=True)
os.makedirs(out, exist_ok=True)
if not os.path.exists(wt):
    subprocess.check_call(["git", "-C", "/repo", "worktree", "add", "-q", "--detach", wt, "HEAD"])
rec = {k: prop[k] for k in ("title", "statement", "quantifier", "why_tests_cant", "anchors")}
print(f"""You are helping to evaluate a verification effort for the Go library olive-io/bpmn (a lightweight BPMN 2.0 workflow engine: goroutine-per-node token flow, gateways, events, timers, sub-processes, XML schema model). You play the role of a developer who introduces a realistic regression.

Your own scratch git worktree of the library is at {wt} (work ONLY there; never touch /repo or /verif; do not read /verif). It is a Go workspace (go.work; modules `.` and `./schema`).
Environment for every shell call: `export GOPROXY=off GOSUMDB=off GOTOOLCHAIN=local` (no network; do NOT set GOFLAGS=-mod=mod inside the worktree). The existing test suite is run with `cd {wt} && go test -vet=off -count=1 ./... && cd schema && go test -vet=off -count=1 ./...` (about 1-2 minutes; the test TestNewProcessSetStartsDistinctExecutableProcesses is known to be flaky and may be ignored). Calls `verifhook.Point("...")` in the source are inert instrumentation points: leave them alone.

Here is one semantic property that users of the library rely on (line numbers in it refer to an older revision and may be off):

{json.dumps(rec, indent=1)}

Task: make ONE change to the library's non-test source code (a small diff, the kind of thing a plausible refactoring, optimisation or "simplification" commit would contain) that BREAKS this property, while the library still compiles and the existing test suite still passes.{(" Aim at this part of the property: " + focus) if focus else ""}

The change must need something SPECIFIC to manifest — a particular interleaving, a cancellation or fault at a particular point, a multi-step sequence of operations, an unusual input or diagram shape, or two cooperating sites that each look fine alone — not something ordinary use would expose at once. Do not add dead code, flags, environment checks, random failures or time-based triggers; the change must look like an honest mistake. Do not edit existing tests. Do not break the build tag `verif` (package pkg/verifhook).

Deliver, in {out}/ :
 1. `patch.diff` — output of `git -C {wt} diff` (source change only, no test files);
 2. `demo_test.go` — a Go test file (state in README.md the package directory it must be copied into, e.g. the repository root as package bpmn / bpmn_test, or pkg/tracing, ...) containing one test `TestSeedDemo...` that FAILS (or panics / is reported by -race; say so) with your change and PASSES without it, deterministically or at least in the large majority of runs; it may use testdata of the repository and build its own diagrams; it must finish within 60 s;
 3. `README.md` — 5-15 lines: what the change is, why it breaks the property, what is needed for it to manifest, the package directory and `go test -run` pattern of the demonstration, and whether -race is needed.
Before you finish, verify all of it yourself in the worktree: (a) `go build ./...` and `go vet` are not required but the full existing suite passes with the change (run it at least once completely); (b) the demonstration fails with the change; (c) with the change reverted the demonstration passes — NEVER use `git stash` (the stash is shared with other people's worktrees of this repository): save `git diff > {out}/patch.diff`, revert with `git apply -R {out}/patch.diff`, run the demonstration, re-apply with `git apply {out}/patch.diff`, so the worktree ends with the change applied and the demo test file present; check that `git diff` then shows only your own change. Report in your final message: the one-line idea, the files touched, and the three verification results.""")
