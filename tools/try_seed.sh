#!/bin/bash
# try_seed.sh <patch.diff> <tier> <check id>...   — apply a seeded change to /repo, run checks, always revert.
set -u
P="$1"; shift; TIER="$1"; shift
cd /repo || exit 2
if [ -n "$(git status --porcelain)" ]; then echo "repo not clean"; exit 2; fi
git apply "$P" || { echo "patch does not apply"; exit 2; }
trap 'git -C /repo checkout -- . ; git -C /repo clean -fdq' EXIT
cd /verif
for id in "$@"; do
  out=$(bin/check "$id" "$TIER" 2>&1)
  rc=$?
  echo "== $id exit=$rc"
  echo "$out" | grep -A2 "^VIOLATION" | grep -v "^--" | cut -c1-260 | head -12
  echo "$out" | tail -1 | cut -c1-200
done
