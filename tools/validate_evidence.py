import json,glob,jsonschema
sch=json.load(open('/root/.vp/EVIDENCE.schema.json'))
ok=0
for f in sorted(glob.glob('/verif/evidence/C*.json')):
    try:
        jsonschema.validate(json.load(open(f)),sch); ok+=1
    except Exception as e:
        print('INVALID',f,str(e)[:200])
print('valid',ok)
