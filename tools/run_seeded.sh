#!/bin/bash
# run_seeded.sh [tier]  — runs every seeded change against the checks named in its meta.json; writes seeded/RESULTS.md
TIER="${1:-quick}"
OUT=/verif/seeded/RESULTS.md
echo "# Seeded changes vs checks ($TIER tier, $(date -u +%F))" > $OUT
echo "" >> $OUT
echo "| seeded change | breaks | check | outcome | first signature |" >> $OUT
echo "|---|---|---|---|---|" >> $OUT
for d in /verif/seeded/*/; do
  n=$(basename $d); [ -f $d/meta.json ] || continue
  prop=$(python3 -c "import json;print(json.load(open('$d/meta.json'))['breaks_property'])")
  checks=$(python3 -c "import json;print(' '.join(json.load(open('$d/meta.json'))['checks_to_run']))")
  cd /repo; [ -z "$(git status --porcelain)" ] || { echo "repo dirty"; exit 2; }
  git apply $d/patch.diff || { echo "| $n | $prop | - | PATCH DOES NOT APPLY | |" >> $OUT; continue; }
  for c in $checks; do
    o=$(cd /verif && bin/check $c $TIER 2>&1); rc=$?
    sig=$(echo "$o" | grep -m1 "signature=" | sed 's/.*signature=//' | cut -c1-90)
    case $rc in 0) r="missed";; 1) r="CAUGHT";; *) r="broken($rc)";; esac
    echo "| $n | $prop | $c | $r | \`$sig\` |" >> $OUT
    echo "$n $c $r $sig"
  done
  git -C /repo checkout -- . ; git -C /repo clean -fdq
done
