#!/bin/bash
# run_seeded.sh [tier] [name...]  — runs seeded changes against the checks named in their meta.json and
# writes seeded/RESULTS.md. Without names: all of them (file rewritten); with names: only those (their rows
# replaced / appended). Patches /repo's working tree: nothing else may touch /repo or run checks meanwhile.
TIER="${1:-quick}"; shift
OUT=/verif/seeded/RESULTS.md
if [ $# -eq 0 ]; then
  echo "# Seeded changes vs checks ($TIER tier, $(date -u +%F))" > $OUT
  echo "" >> $OUT
  echo "| seeded change | breaks | check | outcome | first signature |" >> $OUT
  echo "|---|---|---|---|---|" >> $OUT
  set -- $(cd /verif/seeded && ls -d */ | tr -d /)
else
  for n in "$@"; do grep -v "^| $n |" $OUT > $OUT.tmp; mv $OUT.tmp $OUT; done
fi
for n in "$@"; do
  d=/verif/seeded/$n; [ -f $d/meta.json ] || continue
  prop=$(python3 -c "import json;print(json.load(open('$d/meta.json'))['breaks_property'])")
  checks=$(python3 -c "import json;print(' '.join(json.load(open('$d/meta.json'))['checks_to_run']))")
  cd /repo; [ -z "$(git status --porcelain)" ] || { echo "repo dirty"; exit 2; }
  git apply $d/patch.diff || { echo "| $n | $prop | - | PATCH DOES NOT APPLY | |" >> $OUT; continue; }
  for c in $checks; do
    o=$(cd /verif && bin/check $c $TIER 2>&1); rc=$?
    sig=$(echo "$o" | grep -m1 "signature=" | sed 's/.*signature=//' | cut -c1-90)
    case $rc in 0) r="missed";; 1) r="CAUGHT";; *) r="broken($rc)";; esac
    echo "| $n | $prop | $c | $r | \`$sig\` |" >> $OUT
    echo "$n $c $r $sig"
  done
  git -C /repo checkout -- . ; git -C /repo clean -fdq
done
# keep the table sorted by name
( head -4 $OUT; tail -n +5 $OUT | sort ) > $OUT.tmp && mv $OUT.tmp $OUT
