#!/bin/bash
# confirm_seed.sh <dir with patch.diff + demo> <name> <demo file> <dest path in repo> <go test pattern>
# Confirms in a fresh scratch worktree: suite passes with the change; demo fails with it and passes without it.
set -u
SRC="$1"; NAME="$2"; DEMO="$3"; DEST="$4"; PAT="$5"
W=/tmp/mutv/$NAME
rm -rf "$W"; mkdir -p /tmp/mutv
git -C /repo worktree add -q --detach "$W" HEAD || exit 2
cleanup() { git -C /repo worktree remove --force "$W" 2>/dev/null; rm -rf "$W"; }
trap cleanup EXIT
cd "$W" || exit 2
git apply "$SRC/patch.diff" || { echo "CONFIRM $NAME: patch does not apply"; exit 1; }
go build ./... || { echo "CONFIRM $NAME: does not compile"; exit 1; }
suite=$( (go test -vet=off -count=1 ./... 2>&1; cd schema && go test -vet=off -count=1 ./... 2>&1) | grep -v "no test files" | grep -v "^ok" | grep -v "TestNewProcessSetStartsDistinctExecutableProcesses\|engine_test.go\|Error Trace\|Error:\|Test:\|^FAIL$\|^\s*$" | grep "FAIL\|panic" | head -5)
if [ -n "$suite" ]; then
  # tolerate only the known flaky test
  rest=$( (go test -vet=off -count=1 ./... 2>&1) | grep "^--- FAIL" | grep -v TestNewProcessSetStartsDistinctExecutableProcesses | head -3)
  if [ -n "$rest" ]; then echo "CONFIRM $NAME: suite fails with the change: $rest"; exit 1; fi
fi
echo "CONFIRM $NAME: suite passes with the change"
mkdir -p "$(dirname "$DEST")"; cp "$SRC/$DEMO" "$DEST"
PKG=./$(dirname "$DEST")
with=$(go test ${SEED_RACE:+-race} -vet=off -count=1 -run "$PAT" "$PKG" 2>&1 | tail -3)
echo "$with" | grep -q "^ok" && { echo "CONFIRM $NAME: demo PASSES with the change (not discriminating): $with"; exit 1; }
echo "CONFIRM $NAME: demo fails with the change"
git checkout -q -- . 
without=$(go test ${SEED_RACE:+-race} -vet=off -count=1 -run "$PAT" "$PKG" 2>&1 | tail -3)
echo "$without" | grep -q "^ok" || { echo "CONFIRM $NAME: demo FAILS without the change: $without"; exit 1; }
echo "CONFIRM $NAME: demo passes without the change"
mkdir -p /verif/seeded/$NAME
cp "$SRC/patch.diff" "$SRC/$DEMO" /verif/seeded/$NAME/
[ -f "$SRC/README.md" ] && cp "$SRC/README.md" /verif/seeded/$NAME/README.md
echo "CONFIRM $NAME: OK"
