#!/usr/bin/env python3
import json,glob,sys
pat=sys.argv[1]; name=sys.argv[2] if len(sys.argv)>2 else None
tail=int(sys.argv[3]) if len(sys.argv)>3 else 40
for f in sorted(glob.glob('/verif/replay/%s-*.json'%pat)):
    d=json.load(open(f))
    desc=d['descriptor']
    if name and desc.get('name')!=name: continue
    print('==',f); print(d['signature'],'x',d['occurrences'],'idx',d['idx'],d['kind']); print(d['message'][:600])
    g=desc.get('g')
    if g:
        for n in g['nodes']: print('  ',n['id'],n['kind'],'scope='+n.get('scope',''),'in',n.get('in'),'out',n.get('out'),'def',n.get('default'))
        for fl in g['flows']:
            c=fl.get('cond'); cs=''
            if c: cs='%s %s %s'%(c.get('var'),c.get('op'),c.get('val',0)) + (' && ...' if c.get('and') else '')
            print('  ',fl['id'],fl['src'],'->',fl['dst'],cs)
        print('  vars',desc.get('vars'),'order',desc.get('order'))
    else:
        print(json.dumps(desc)[:800])
    print('\n'.join((d.get('log') or [])[-tail:]))
