//go:build race

package main

func init() { raceEnabled = true }
