// worker runs one shard of the cases of one property, one case at a time,
// journalling each case before it starts (DESIGN.md 2.2).
package main

import (
	"bufio"
	"context"
	"encoding/json"
	"flag"
	"fmt"
	"os"
	"runtime"
	"runtime/pprof"
	"sync/atomic"
	"time"

	"verif/internal/fw"
	"verif/internal/perturb"
	_ "verif/internal/props"
)

var raceEnabled = false

func main() {
	// must happen before any goroutine snapshot: Go 1.26.8 prints pprof labels
	// in tracebacks only with this setting (a //go:debug directive is rejected).
	os.Setenv("GODEBUG", "tracebacklabels=1")

	prop := flag.String("prop", "", "property id")
	tier := flag.String("tier", "quick", "quick|thorough")
	seed := flag.Uint64("seed", 1, "seed")
	shard := flag.Int("shard", 0, "shard index")
	of := flag.Int("of", 1, "number of shards")
	from := flag.Int("from", 0, "skip cases with idx < from")
	only := flag.Int("only", -1, "run only this idx")
	journal := flag.String("journal", "", "journal file")
	procs := flag.Int("procs", 0, "GOMAXPROCS (0 = by seed)")
	casesFile := flag.String("cases", "", "file with the cases of this batch (one JSON case per line); avoids regenerating the case list")
	flag.Parse()

	p := fw.Lookup(*prop)
	if p == nil {
		fmt.Fprintf(os.Stderr, "unknown property %q\n", *prop)
		os.Exit(2)
	}
	perturb.RaceMode = raceEnabled
	perturb.Install()
	if *procs > 0 {
		runtime.GOMAXPROCS(*procs)
	}
	var cases []fw.Case
	if *casesFile != "" {
		f, err := os.Open(*casesFile)
		if err != nil {
			fmt.Fprintln(os.Stderr, err)
			os.Exit(2)
		}
		sc := bufio.NewScanner(f)
		sc.Buffer(make([]byte, 1<<20), 512<<20)
		for sc.Scan() {
			var c fw.Case
			if err := json.Unmarshal(sc.Bytes(), &c); err == nil {
				cases = append(cases, c)
			}
		}
		f.Close()
		*of, *shard = 1, 0
	} else {
		cases = p.Cases(*tier, *seed)
	}
	jf, err := os.OpenFile(*journal, os.O_CREATE|os.O_WRONLY|os.O_APPEND, 0o644)
	if err != nil {
		fmt.Fprintln(os.Stderr, err)
		os.Exit(2)
	}
	jw := bufio.NewWriter(jf)
	emit := func(tag string, v any) {
		b, _ := json.Marshal(v)
		jw.WriteString(tag + " ")
		jw.Write(b)
		jw.WriteString("\n")
		jw.Flush()
	}

	// wall-clock watchdog (unlabelled goroutine): firing is inconclusive, never a verdict.
	var caseStart atomic.Int64
	wd := p.WatchdogSec
	if wd == 0 {
		wd = 120
	}
	go func() {
		for {
			time.Sleep(500 * time.Millisecond)
			st := caseStart.Load()
			if st != 0 && time.Since(time.Unix(0, st)) > time.Duration(wd)*time.Second {
				fmt.Fprintf(os.Stderr, "WATCHDOG: case exceeded %ds\n", wd)
				buf := make([]byte, 4<<20)
				n := runtime.Stack(buf, true)
				os.Stderr.Write(buf[:n])
				os.Exit(3)
			}
		}
	}()

	ran := 0
	for _, c := range cases {
		if *only >= 0 {
			if c.Idx != *only {
				continue
			}
		} else if c.Idx%*of != *shard || c.Idx < *from {
			continue
		}
		emit("B", map[string]any{"idx": c.Idx, "kind": c.Kind})
		label := fmt.Sprintf("%s-%d-%d", p.ID, c.Idx, os.Getpid())
		env := &fw.Env{Tier: *tier, Seed: *seed, Race: raceEnabled, Label: label}
		caseStart.Store(time.Now().UnixNano())
		var v *fw.V
		pprof.Do(context.Background(), pprof.Labels("vcase", label), func(ctx context.Context) {
			v = p.Run(c, env)
		})
		v.Add("wall_ms", int(time.Since(time.Unix(0, caseStart.Load())).Milliseconds()))
		caseStart.Store(0)
		perturb.Off()
		emit("E", &v.Verdict)
		ran++
	}
	emit("D", map[string]any{"ran": ran, "hooks": perturb.Counts()})
	jw.Flush()
}
