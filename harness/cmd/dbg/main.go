// dbg runs selected cases of a property in-process and prints verdicts (triage tool).
package main

import (
	"context"
	"encoding/json"
	"flag"
	"fmt"
	"os"
	"regexp"
	"runtime/pprof"
	"strings"

	"verif/internal/fw"
	"verif/internal/perturb"
	_ "verif/internal/props"
)

func main() {
	os.Setenv("GODEBUG", "tracebacklabels=1")
	prop := flag.String("prop", "", "")
	tier := flag.String("tier", "quick", "")
	seed := flag.Uint64("seed", 1, "")
	re := flag.String("re", "", "regex on descriptor name/kind")
	idx := flag.Int("idx", -1, "")
	max := flag.Int("max", 20, "")
	logn := flag.Int("log", 0, "print log lines")
	xml := flag.Bool("desc", false, "print descriptor")
	flag.Parse()
	p := fw.Lookup(*prop)
	perturb.Install()
	rx := regexp.MustCompile(*re)
	n := 0
	for _, c := range p.Cases(*tier, *seed) {
		if *idx >= 0 && c.Idx != *idx {
			continue
		}
		var d struct{ Name string }
		json.Unmarshal(c.Desc, &d)
		if !rx.MatchString(c.Kind + ":" + d.Name) {
			continue
		}
		if n >= *max {
			break
		}
		n++
		label := fmt.Sprintf("dbg-%d", c.Idx)
		var v *fw.V
		pprof.Do(context.Background(), pprof.Labels("vcase", label), func(ctx context.Context) {
			v = p.Run(c, &fw.Env{Tier: *tier, Seed: *seed, Label: label})
		})
		fmt.Printf("case %d %s:%s -> %s %v\n", c.Idx, c.Kind, d.Name, v.Status, v.Stats)
		for _, f := range v.Findings {
			fmt.Printf("   %s %s|%s: %s\n", f.Status, f.Rule, f.Class, trunc(f.Msg, 400))
		}
		if *xml {
			fmt.Println(string(c.Desc))
		}
		if *logn > 0 {
			l := v.Log
			if len(l) > *logn {
				l = l[len(l)-*logn:]
			}
			fmt.Println(strings.Join(l, "\n"))
		}
	}
}

func trunc(s string, n int) string {
	if len(s) > n {
		return s[:n] + "…"
	}
	return s
}
