// vcheck orchestrates one property check: it shards the deterministic case
// list over worker processes, collects verdicts, attributes crashes and race
// reports, matches known findings, writes evidence and replay files and sets
// the exit code (0 held / 1 violation / 2 broken check).
package main

import (
	"bufio"
	"encoding/json"
	"fmt"
	"os"
	"os/exec"
	"path/filepath"
	"regexp"
	"sort"
	"strconv"
	"strings"
	"sync"
	"sync/atomic"
	"time"

	"verif/internal/fw"
	_ "verif/internal/props"
)

const root = "/verif"

type known struct {
	Property string `json:"property"`
	Rule     string `json:"rule"`
	Class    string `json:"class"`
	Status   string `json:"status"` // "known" | "fixed"
	What     string `json:"what"`
	Commit   string `json:"commit,omitempty"`
}

type found struct {
	fw.Finding
	Idx  int
	Kind string
	Log  []string
}

func main() {
	if len(os.Args) < 3 {
		fmt.Fprintln(os.Stderr, "usage: vcheck <ID> quick|thorough [--replay file]")
		os.Exit(2)
	}
	id, tier := os.Args[1], os.Args[2]
	if t := os.Getenv("VERIF_TIER"); t != "" && (t == "quick" || t == "thorough") && len(os.Args) < 4 {
		_ = t // the tier argument of the registered command wins
	}
	seed := uint64(1)
	if s := os.Getenv("VERIF_SEED"); s != "" {
		if n, err := strconv.ParseUint(s, 10, 64); err == nil {
			seed = n
		}
	}
	p := fw.Lookup(id)
	if p == nil {
		fmt.Fprintf(os.Stderr, "unknown property %s (have %v)\n", id, fw.IDs())
		os.Exit(2)
	}
	replayIdx := -1
	if len(os.Args) >= 5 && os.Args[3] == "--replay" {
		b, err := os.ReadFile(os.Args[4])
		if err != nil {
			fmt.Fprintln(os.Stderr, err)
			os.Exit(2)
		}
		var r struct {
			Tier string `json:"tier"`
			Seed uint64 `json:"seed"`
			Idx  int    `json:"idx"`
		}
		json.Unmarshal(b, &r)
		tier, seed, replayIdx = r.Tier, r.Seed, r.Idx
	}
	start := time.Now()
	cases := p.Cases(tier, seed)
	if replayIdx >= 0 {
		var keep []fw.Case
		for _, c := range cases {
			if c.Idx == replayIdx {
				keep = append(keep, c)
			}
		}
		cases = keep
	}
	byIdx := map[int]fw.Case{}
	for _, c := range cases {
		byIdx[c.Idx] = c
	}
	runDir := filepath.Join(root, ".run", fmt.Sprintf("%s-%s-%d", id, tier, os.Getpid()))
	os.RemoveAll(runDir)
	os.MkdirAll(runDir, 0o755)
	worker := filepath.Join(root, ".build", "worker")
	if p.Race {
		worker = filepath.Join(root, ".build", "worker-race")
	}

	var mu sync.Mutex
	// enough: once this many cases have produced a violation that is not a listed known finding the
	// verdict is settled (exit 1); the remaining batches are skipped (a tree that violates a property
	// often makes every further case slow: leaked or spinning goroutines, watchdogs)
	const enough = 30
	var unlisted atomic.Int64
	var skipped atomic.Int64
	kfEarly := loadKnown()
	verdicts := map[int]*fw.Verdict{}
	var crashes []found
	broken := []string{}
	hooks := map[string]int64{}
	inconclusive := 0

	runWorker := func(tag string, args ...string) (journal, logf string) {
		journal = filepath.Join(runDir, tag+".jsonl")
		logf = filepath.Join(runDir, tag+".log")
		lf, _ := os.OpenFile(logf, os.O_CREATE|os.O_WRONLY|os.O_APPEND, 0o644)
		defer lf.Close()
		all := append([]string{"-prop", id, "-tier", tier, "-seed", fmt.Sprint(seed), "-journal", journal}, args...)
		cmd := exec.Command(worker, all...)
		cmd.Stdout = lf
		cmd.Stderr = lf
		cmd.Env = append(os.Environ(), "GOTRACEBACK=all")
		if p.Race {
			cmd.Env = append(cmd.Env, fmt.Sprintf("GORACE=halt_on_error=0 history_size=5 log_path=%s", filepath.Join(runDir, "race-"+tag)))
		}
		cmd.Run()
		return
	}

	// parse a journal; returns (lastBeganIdxWithoutEnd, done)
	parse := func(journal string) (open int, done bool) {
		open = -1
		f, err := os.Open(journal)
		if err != nil {
			return -1, false
		}
		defer f.Close()
		sc := bufio.NewScanner(f)
		sc.Buffer(make([]byte, 1<<20), 256<<20)
		for sc.Scan() {
			line := sc.Text()
			if len(line) < 2 {
				continue
			}
			body := line[2:]
			switch line[0] {
			case 'B':
				var b struct{ Idx int }
				json.Unmarshal([]byte(body), &b)
				open = b.Idx
			case 'E':
				var v fw.Verdict
				if err := json.Unmarshal([]byte(body), &v); err == nil {
					mu.Lock()
					_, seen := verdicts[v.Idx]
					verdicts[v.Idx] = &v
					mu.Unlock()
					if !seen && v.Status == fw.Violation {
						for _, f := range v.Findings {
							if f.Status != fw.Violation {
								continue
							}
							if k, ok := kfEarly[f.Sig(id)]; !ok || k.Status != "known" {
								unlisted.Add(1)
								break
							}
						}
					}
				}
				open = -1
			case 'D':
				var d struct {
					Hooks map[string]int64
				}
				json.Unmarshal([]byte(body), &d)
				mu.Lock()
				for k, v := range d.Hooks {
					hooks[k] += v
				}
				mu.Unlock()
				done = true
			}
		}
		return
	}

	attribute := func(idx int, logf string) {
		b, _ := os.ReadFile(logf)
		txt := string(b)
		mu.Lock()
		defer mu.Unlock()
		if strings.Contains(txt, "WATCHDOG: case exceeded") {
			inconclusive++
			verdicts[idx] = &fw.Verdict{Idx: idx, Kind: byIdx[idx].Kind, Status: fw.Inconclusive,
				Findings: []fw.Finding{{Status: fw.Inconclusive, Rule: "watchdog", Msg: "worker watchdog fired"}}}
			return
		}
		fn, excerpt, isEngine := crashSite(txt)
		if !isEngine {
			broken = append(broken, fmt.Sprintf("worker died on case %d without engine frames: %s (log %s)", idx, excerpt, logf))
			return
		}
		crashes = append(crashes, found{Finding: fw.Finding{Status: fw.Violation, Rule: "engine-panic", Class: fn,
			Msg: "engine goroutine crashed: " + excerpt}, Idx: idx, Kind: byIdx[idx].Kind, Log: tailLines(txt, 60)})
	}

	maxPar := 16
	if p.MaxShards > 0 {
		maxPar = p.MaxShards
	}
	if p.OnePerProcess {
		sem := make(chan struct{}, maxPar)
		var wg sync.WaitGroup
		for _, c := range cases {
			wg.Add(1)
			sem <- struct{}{}
			go func(c fw.Case) {
				defer wg.Done()
				defer func() { <-sem }()
				if unlisted.Load() >= enough && replayIdx < 0 {
					skipped.Add(1)
					return
				}
				tag := fmt.Sprintf("case-%d", c.Idx)
				cf := writeCases(runDir, tag, []fw.Case{c})
				j, l := runWorker(tag, "-cases", cf)
				os.Remove(cf)
				open, done := parse(j)
				if !done {
					if open < 0 {
						open = c.Idx
					}
					attribute(open, l)
				}
				// keep disk usage flat
				mu.Lock()
				v := verdicts[c.Idx]
				mu.Unlock()
				if done && v != nil && v.Status == fw.OK && !p.Race {
					os.Remove(j)
					os.Remove(l)
				}
			}(c)
		}
		wg.Wait()
	} else {
		// small batches per worker process: goroutines leaked (or left spinning)
		// by the engine after a case is cancelled must not starve later cases
		batch := p.Batch
		if batch == 0 {
			batch = 6
		}
		n := (len(cases) + batch - 1) / batch
		if n == 0 {
			n = 1
		}
		if replayIdx >= 0 {
			n = 1
		}
		sem := make(chan struct{}, maxPar)
		var wg sync.WaitGroup
		for sh := 0; sh < n; sh++ {
			wg.Add(1)
			sem <- struct{}{}
			go func(sh int) {
				defer wg.Done()
				defer func() { <-sem }()
				from := 0
				var mine []fw.Case
				for _, c := range cases {
					if c.Idx%n == sh || replayIdx >= 0 {
						mine = append(mine, c)
					}
				}
				if unlisted.Load() >= enough && replayIdx < 0 {
					skipped.Add(int64(len(mine)))
					return
				}
				cf := writeCases(runDir, fmt.Sprintf("shard-%d", sh), mine)
				defer os.Remove(cf)
				for attempt := 0; attempt < batch+2; attempt++ {
					tag := fmt.Sprintf("shard-%d-%d", sh, attempt)
					args := []string{"-cases", cf, "-from", fmt.Sprint(from)}
					j, l := runWorker(tag, args...)
					open, done := parse(j)
					if done {
						if !p.Race {
							os.Remove(j)
							os.Remove(l)
						}
						return
					}
					if open < 0 {
						mu.Lock()
						broken = append(broken, fmt.Sprintf("worker shard %d died outside a case (log %s)", sh, l))
						mu.Unlock()
						return
					}
					attribute(open, l)
					from = open + 1
					if replayIdx >= 0 {
						return
					}
				}
			}(sh)
		}
		wg.Wait()
	}

	// race reports
	var raceFinds []found
	thirdParty := 0
	raceBlocks := 0
	if p.Race {
		raceFinds, thirdParty, raceBlocks = collectRaces(runDir)
	}

	// aggregate
	kf := loadKnown()
	var finds []found
	finds = append(finds, crashes...)
	finds = append(finds, raceFinds...)
	evaluations := 0
	distinct := map[string]bool{}
	stats := map[string]int{}
	sigs := map[string]bool{}
	var samples []any
	idxs := make([]int, 0, len(verdicts))
	for i := range verdicts {
		idxs = append(idxs, i)
	}
	sort.Ints(idxs)
	for _, i := range idxs {
		v := verdicts[i]
		if v.Status == fw.Inconclusive {
			inconclusive++
			for _, f := range v.Findings {
				if f.Status == fw.Inconclusive {
					stats["inconclusive:"+f.Rule]++
				}
			}
			if len(v.Findings) > 0 && stats["inconclusive-shown"] < 5 {
				stats["inconclusive-shown"]++
				fmt.Printf("INCONCLUSIVE case %d (%s): %s: %s\n", v.Idx, v.Kind, v.Findings[0].Rule, v.Findings[0].Msg)
			}
			continue
		}
		evaluations++
		if v.Nontrivial {
			distinct[v.Hash] = true
		}
		for k, n := range v.Stats {
			stats[k] += n
		}
		for _, s := range v.Sigs {
			sigs[s] = true
		}
		for _, f := range v.Findings {
			if f.Status == fw.Violation {
				finds = append(finds, found{Finding: f, Idx: v.Idx, Kind: v.Kind, Log: v.Log})
			}
		}
		if len(samples) < 4 && v.Nontrivial && (len(samples) == 0 || v.Idx%7 == 0 || len(idxs) < 30) {
			c := byIdx[v.Idx]
			var d any
			json.Unmarshal(c.Desc, &d)
			samples = append(samples, map[string]any{"idx": v.Idx, "kind": v.Kind, "descriptor": trimSample(d), "observed": v.Observed, "stats": v.Stats})
		}
	}
	evaluations += len(crashes)

	// match findings against known findings
	knownSeen := map[string]known{}
	type viol struct {
		sig string
		f   found
		n   int
	}
	violBySig := map[string]*viol{}
	var violOrder []string
	for _, f := range finds {
		sig := f.Sig(id)
		if k, ok := kf[sig]; ok && k.Status == "known" {
			knownSeen[sig] = k
			continue
		}
		if vv, ok := violBySig[sig]; ok {
			vv.n++
			continue
		}
		violBySig[sig] = &viol{sig: sig, f: f, n: 1}
		violOrder = append(violOrder, sig)
	}
	var ks []string
	for s := range knownSeen {
		ks = append(ks, s)
	}
	sort.Strings(ks)
	for _, s := range ks {
		fmt.Printf("KNOWN-FINDING: property=%s %s [%s]\n", id, knownSeen[s].What, s)
	}
	os.MkdirAll(filepath.Join(root, "replay"), 0o755)
	if replayIdx < 0 {
		if old, _ := filepath.Glob(filepath.Join(root, "replay", id+"-*.json")); old != nil {
			for _, f := range old {
				os.Remove(f)
			}
		}
	}
	for _, s := range violOrder {
		vv := violBySig[s]
		c := byIdx[vv.f.Idx]
		rp := filepath.Join(root, "replay", fmt.Sprintf("%s-%s.json", id, fw.HashBytes([]byte(s))))
		var d any
		json.Unmarshal(c.Desc, &d)
		b, _ := json.MarshalIndent(map[string]any{"property": id, "tier": tier, "seed": seed, "idx": vv.f.Idx, "kind": vv.f.Kind,
			"signature": s, "rule": vv.f.Rule, "class": vv.f.Class, "message": vv.f.Msg, "occurrences": vv.n,
			"descriptor": d, "log": vv.f.Log}, "", " ")
		os.WriteFile(rp, b, 0o644)
		fmt.Printf("VIOLATION property=%s replay=%s\n  signature=%s (x%d)\n  %s\n", id, rp, s, vv.n, vv.f.Msg)
	}

	// evidence
	exhaustive := false
	if p.Exhaustive != nil {
		exhaustive = p.Exhaustive(tier)
	}
	var sigList []string
	for s := range sigs {
		sigList = append(sigList, s)
	}
	cov := map[string]any{
		"evaluations":         evaluations,
		"distinct_nontrivial": len(distinct),
		"rule":                p.Rule,
		"samples":             samples,
		"exhaustive":          exhaustive,
		"cases_generated":     len(cases),
		"inconclusive_cases":  inconclusive,
		"measured":            stats,
		"distinct_signatures": len(sigList),
		"hook_sites_hit":      hooks,
		"known_findings_seen": ks,
		"unlisted_violations": violOrder,
	}
	if n := skipped.Load(); n > 0 {
		cov["cases_skipped_after_enough_violations"] = n
	}
	if p.Race {
		cov["race_report_blocks"] = raceBlocks
		cov["race_reports_engine_distinct"] = len(raceFinds)
		cov["third_party_reports"] = thirdParty
	}
	ev := map[string]any{
		"property_id": id, "tier": tier, "seed": seed, "level": "exploration",
		"coverage": cov, "assumptions": p.Assumptions,
		"wall_s": time.Since(start).Seconds(), "violations": len(violOrder),
	}
	if replayIdx < 0 {
		os.MkdirAll(filepath.Join(root, "evidence"), 0o755)
		b, _ := json.MarshalIndent(ev, "", " ")
		os.WriteFile(filepath.Join(root, "evidence", id+".json"), b, 0o644)
	}
	fmt.Printf("%s %s seed=%d: cases=%d evaluated=%d nontrivial-distinct=%d inconclusive=%d known-findings=%d violations=%d wall=%.1fs\n",
		id, tier, seed, len(cases), evaluations, len(distinct), inconclusive, len(ks), len(violOrder), time.Since(start).Seconds())

	exit := 0
	if len(violOrder) > 0 {
		exit = 1
	}
	min := p.MinNontrivial
	if min == 0 {
		min = 2
	}
	if replayIdx < 0 && len(distinct) < min && exit == 0 {
		broken = append(broken, fmt.Sprintf("observed too little: %d distinct non-trivial cases (< %d)", len(distinct), min))
	}
	if replayIdx < 0 && inconclusive*5 > len(cases) && exit == 0 {
		broken = append(broken, fmt.Sprintf("%d of %d cases inconclusive", inconclusive, len(cases)))
	}
	if len(broken) > 0 {
		for _, b := range broken {
			fmt.Println("BROKEN-CHECK:", b)
		}
		if exit == 0 {
			exit = 2
		}
	}
	if exit == 0 {
		os.RemoveAll(runDir)
	}
	os.Exit(exit)
}

// writeCases writes a batch of cases for one worker process.
func writeCases(dir, tag string, cs []fw.Case) string {
	path := filepath.Join(dir, tag+".cases")
	f, err := os.Create(path)
	if err != nil {
		return path
	}
	w := bufio.NewWriter(f)
	for _, c := range cs {
		b, _ := json.Marshal(c)
		w.Write(b)
		w.WriteString("\n")
	}
	w.Flush()
	f.Close()
	return path
}

func trimSample(d any) any {
	b, _ := json.Marshal(d)
	if len(b) > 6000 {
		return string(b[:6000]) + "…(truncated)"
	}
	return d
}

func tailLines(s string, n int) []string {
	ls := strings.Split(strings.TrimRight(s, "\n"), "\n")
	if len(ls) > n {
		ls = ls[:n]
	}
	return ls
}

var frameFile = regexp.MustCompile(`^\t(/\S+\.go):(\d+)`)

// crashSite finds the panic/fatal error in a worker log and returns the
// innermost non-test /repo function on the crashing goroutine's stack.
func crashSite(txt string) (fn, excerpt string, engine bool) {
	i := strings.Index(txt, "panic: ")
	if j := strings.Index(txt, "fatal error: "); j >= 0 && (i < 0 || j < i) {
		i = j
	}
	if i < 0 {
		if len(txt) > 300 {
			txt = txt[len(txt)-300:]
		}
		return "", "no panic found: " + txt, false
	}
	rest := txt[i:]
	first := rest
	if k := strings.IndexByte(first, '\n'); k >= 0 {
		first = first[:k]
	}
	excerpt = first
	// crashing goroutine = first goroutine block after the panic line
	g := strings.Index(rest, "\ngoroutine ")
	if g < 0 {
		return "", excerpt, false
	}
	block := rest[g+1:]
	if e := strings.Index(block, "\n\n"); e >= 0 {
		block = block[:e]
	}
	lines := strings.Split(block, "\n")
	for k := 1; k+1 < len(lines); k++ {
		if m := frameFile.FindStringSubmatch(lines[k+1]); m != nil {
			if strings.HasPrefix(m[1], "/repo/") && !strings.HasSuffix(m[1], "_test.go") {
				f := lines[k]
				if p := strings.LastIndexByte(f, '('); p > 0 {
					f = f[:p]
				}
				if p := strings.LastIndexByte(f, '/'); p >= 0 {
					f = f[p+1:]
				}
				return f, excerpt + " at " + f, true
			}
		}
	}
	// "all goroutines are asleep" etc: engine if any goroutine has /repo frames
	if strings.Contains(first, "all goroutines are asleep") {
		return "deadlock", excerpt, strings.Contains(rest, "/repo/")
	}
	return "", excerpt, false
}

func loadKnown() map[string]known {
	out := map[string]known{}
	b, err := os.ReadFile(filepath.Join(root, "known_findings.json"))
	if err != nil {
		return out
	}
	var f struct {
		Findings []known `json:"findings"`
	}
	if err := json.Unmarshal(b, &f); err != nil {
		fmt.Println("BROKEN-CHECK: known_findings.json does not parse:", err)
		os.Exit(2)
	}
	for _, k := range f.Findings {
		out[k.Property+"|"+k.Rule+"|"+k.Class] = k
	}
	return out
}

var lineNo = regexp.MustCompile(`:\d+( \+0x[0-9a-f]+)?$`)

// collectRaces parses race logs: blocks start with "WARNING: DATA RACE" and end
// with "==================".
func collectRaces(dir string) (finds []found, thirdParty, blocks int) {
	files, _ := filepath.Glob(filepath.Join(dir, "race-*"))
	seen := map[string]bool{}
	for _, f := range files {
		b, err := os.ReadFile(f)
		if err != nil {
			continue
		}
		for _, blk := range strings.Split(string(b), "WARNING: DATA RACE")[1:] {
			blocks++
			if e := strings.Index(blk, "=================="); e >= 0 {
				blk = blk[:e]
			}
			// split the two access stacks
			secs := regexp.MustCompile(`(?m)^(Read|Write|Previous read|Previous write|Atomic|Previous atomic)[^\n]*\n`).Split(blk, -1)
			var tops []string
			engine := false
			through := 0
			for si, sec := range secs {
				if si == 0 || len(tops) == 2 {
					continue
				}
				if g := strings.Index(sec, "\n\n"); g >= 0 {
					sec = sec[:g]
				}
				lines := strings.Split(sec, "\n")
				top := ""
				innermostRepo := false
				firstNonRuntime := true
				passes := false
				for k := 0; k+1 < len(lines); k += 2 {
					fn := strings.TrimSpace(lines[k])
					file := strings.TrimSpace(lines[k+1])
					if fn == "" {
						break
					}
					isRuntime := strings.HasPrefix(fn, "runtime.") || strings.Contains(file, "/src/runtime/") || strings.Contains(file, "/src/sync/") || strings.Contains(file, "/src/internal/")
					inRepo := strings.HasPrefix(file, "/repo/") && !strings.Contains(file, "_test.go")
					if inRepo {
						passes = true
						if top == "" {
							if p := strings.LastIndexByte(fn, '('); p > 0 {
								fn = fn[:p]
							}
							if p := strings.LastIndexByte(fn, '/'); p >= 0 {
								fn = fn[p+1:]
							}
							top = fn
						}
					}
					if !isRuntime && firstNonRuntime {
						firstNonRuntime = false
						innermostRepo = inRepo
					}
				}
				if innermostRepo {
					engine = true
				}
				if passes {
					through++
				}
				tops = append(tops, top)
			}
			if !engine && through < 2 {
				thirdParty++
				continue
			}
			if !engine && through == 2 {
				// both stacks pass through /repo and the racing object was handed to a library
				engine = true
			}
			sort.Strings(tops)
			key := strings.Join(tops, " <-> ")
			if seen[key] {
				continue
			}
			seen[key] = true
			finds = append(finds, found{Finding: fw.Finding{Status: fw.Violation, Rule: "data-race", Class: key,
				Msg: "race detector: " + key}, Idx: 0, Log: tailLines(strings.TrimSpace(blk), 50)})
		}
	}
	return
}
