// Package canon computes canonical forms: of schema models (C15/C19) and of
// stored values (C16).
package canon

import (
	"math/big"
	"fmt"
	"reflect"
	"sort"
	"strings"
)

// Model returns a canonical, order-preserving dump of a schema model: one line
// per leaf, "path = value". nil pointers, empty strings and empty slices are
// omitted (nil ≡ ""), text payloads are whitespace-trimmed, the dynamic type of
// interface fields (formal vs informal expression) is recorded explicitly.
func Model(v any) []string {
	var out []string
	walk(reflect.ValueOf(v), "", &out, map[uintptr]bool{})
	return out
}

func isText(name string, t reflect.Type) bool {
	return strings.Contains(name, "TextPayload") || t.Name() == "Payload" || name == "Body"
}

func walk(v reflect.Value, path string, out *[]string, seen map[uintptr]bool) {
	if !v.IsValid() {
		return
	}
	switch v.Kind() {
	case reflect.Pointer:
		if v.IsNil() {
			return
		}
		if b, ok := v.Interface().(*big.Int); ok {
			*out = append(*out, fmt.Sprintf("%s = %s", path, b.String()))
			return
		}
		if v.Elem().Kind() == reflect.Struct {
			p := v.Pointer()
			if seen[p] {
				return
			}
			seen[p] = true
		}
		walk(v.Elem(), path, out, seen)
	case reflect.Interface:
		if v.IsNil() {
			return
		}
		e := v.Elem()
		t := e.Type()
		for t.Kind() == reflect.Pointer {
			t = t.Elem()
		}
		*out = append(*out, fmt.Sprintf("%s!type = %s", path, t.Name()))
		walk(e, path, out, seen)
	case reflect.Struct:
		t := v.Type()
		// what the element's text reads as through its getter (the value the engine works with), untrimmed
		if v.CanAddr() {
			if m := v.Addr().MethodByName("TextPayload"); m.IsValid() && m.Type().NumIn() == 0 && m.Type().NumOut() == 1 {
				if r := m.Call(nil)[0]; r.Kind() == reflect.Pointer && !r.IsNil() && r.Elem().Kind() == reflect.String && r.Elem().String() != "" {
					*out = append(*out, fmt.Sprintf("%s!TextPayload() = %q", path, r.Elem().String()))
				}
			}
		}
		for i := 0; i < v.NumField(); i++ {
			f := t.Field(i)
			if !f.IsExported() {
				continue
			}
			fv := v.Field(i)
			name := f.Name
			p := path + "/" + name
			if isText(name, derefType(f.Type)) {
				s := textOf(fv)
				s = strings.TrimSpace(s)
				if s != "" {
					*out = append(*out, fmt.Sprintf("%s = %q", p, s))
				}
				continue
			}
			walk(fv, p, out, seen)
		}
	case reflect.Slice, reflect.Array:
		for i := 0; i < v.Len(); i++ {
			walk(v.Index(i), fmt.Sprintf("%s[%d]", path, i), out, seen)
		}
	case reflect.Map:
		keys := v.MapKeys()
		sort.Slice(keys, func(i, j int) bool { return fmt.Sprint(keys[i]) < fmt.Sprint(keys[j]) })
		for _, k := range keys {
			walk(v.MapIndex(k), fmt.Sprintf("%s{%v}", path, k), out, seen)
		}
	case reflect.String:
		if s := v.String(); s != "" {
			*out = append(*out, fmt.Sprintf("%s = %q", path, s))
		}
	case reflect.Bool:
		*out = append(*out, fmt.Sprintf("%s = %v", path, v.Bool()))
	case reflect.Int, reflect.Int8, reflect.Int16, reflect.Int32, reflect.Int64:
		*out = append(*out, fmt.Sprintf("%s = %d", path, v.Int()))
	case reflect.Uint, reflect.Uint8, reflect.Uint16, reflect.Uint32, reflect.Uint64:
		*out = append(*out, fmt.Sprintf("%s = %d", path, v.Uint()))
	case reflect.Float32, reflect.Float64:
		*out = append(*out, fmt.Sprintf("%s = %v", path, v.Float()))
	}
}

func derefType(t reflect.Type) reflect.Type {
	for t.Kind() == reflect.Pointer {
		t = t.Elem()
	}
	return t
}

func textOf(v reflect.Value) string {
	for v.Kind() == reflect.Pointer {
		if v.IsNil() {
			return ""
		}
		v = v.Elem()
	}
	if v.Kind() == reflect.String {
		return v.String()
	}
	return ""
}

// Diff returns the first few differing lines of two dumps.
func Diff(a, b []string) []string {
	ma := map[string]int{}
	for _, l := range a {
		ma[l]++
	}
	mb := map[string]int{}
	for _, l := range b {
		mb[l]++
	}
	var out []string
	for _, l := range a {
		if mb[l] < ma[l] {
			out = append(out, "- "+l)
			mb[l]++
		}
	}
	for _, l := range b {
		if ma[l] < mb[l] {
			// only lines that are really extra
		}
	}
	ma2 := map[string]int{}
	for _, l := range a {
		ma2[l]++
	}
	mb2 := map[string]int{}
	for _, l := range b {
		mb2[l]++
	}
	for _, l := range b {
		if mb2[l] > ma2[l] {
			out = append(out, "+ "+l)
			mb2[l]--
		}
	}
	if len(out) > 12 {
		out = out[:12]
	}
	return out
}

// IDs collects every id (IdField) of the model together with the Go type of its
// element; keep (optional) filters elements by their addressable pointer.
func IDs(v any, keep func(ptr any) bool) map[string]string {
	out := map[string]string{}
	ids(reflect.ValueOf(v), out, map[uintptr]bool{}, keep)
	return out
}

func ids(v reflect.Value, out map[string]string, seen map[uintptr]bool, keep func(ptr any) bool) {
	if !v.IsValid() {
		return
	}
	switch v.Kind() {
	case reflect.Pointer:
		if v.IsNil() {
			return
		}
		if v.Elem().Kind() == reflect.Struct {
			if seen[v.Pointer()] {
				return
			}
			seen[v.Pointer()] = true
		}
		ids(v.Elem(), out, seen, keep)
	case reflect.Interface:
		if !v.IsNil() {
			ids(v.Elem(), out, seen, keep)
		}
	case reflect.Struct:
		t := v.Type()
		for i := 0; i < v.NumField(); i++ {
			f := t.Field(i)
			if !f.IsExported() {
				continue
			}
			if f.Name == "IdField" {
				if s := textOf(v.Field(i)); s != "" {
					ok := true
					if keep != nil {
						ok = v.CanAddr() && keep(v.Addr().Interface())
					}
					if _, dup := out[s]; !dup && ok {
						out[s] = t.Name()
					}
				}
				continue
			}
			ids(v.Field(i), out, seen, keep)
		}
	case reflect.Slice, reflect.Array:
		for i := 0; i < v.Len(); i++ {
			ids(v.Index(i), out, seen, keep)
		}
	}
}

// Slot is one leaf of a schema model that a mutation sweep can change.
type Slot struct {
	Path   string // canonical path of the leaf
	Class  string // "<struct type>.<field>" (structural class for findings)
	Mutate func() // changes the leaf to another value (fresh allocation for pointer leaves)
}

// Slots enumerates, in a deterministic order, the attribute / text leaves of a
// model reachable through exported fields that take part in XML serialisation
// (fields tagged xml:"-" and xml.Name are skipped). v must be a pointer.
func Slots(v any) []Slot {
	var out []Slot
	slots(reflect.ValueOf(v), "", "", &out, map[uintptr]bool{})
	return out
}

var bigIntType = reflect.TypeOf(big.Int{})

func slots(v reflect.Value, path, class string, out *[]Slot, seen map[uintptr]bool) {
	if !v.IsValid() {
		return
	}
	switch v.Kind() {
	case reflect.Pointer:
		et := v.Type().Elem()
		if et == bigIntType {
			if v.CanSet() {
				vv := v
				*out = append(*out, Slot{path, class, func() { vv.Set(reflect.ValueOf(big.NewInt(7))) }})
			}
			return
		}
		switch et.Kind() {
		case reflect.Bool:
			if v.CanSet() {
				vv := v
				*out = append(*out, Slot{path, class, func() {
					nv := reflect.New(et)
					nv.Elem().SetBool(vv.IsNil() || !vv.Elem().Bool())
					vv.Set(nv)
				}})
			}
			return
		case reflect.String:
			if v.CanSet() {
				vv := v
				text := strings.HasSuffix(path, "TextPayloadField")
				*out = append(*out, Slot{path, class, func() {
					nv := reflect.New(et)
					switch {
					case vv.IsNil():
						nv.Elem().SetString("m")
					case text:
						// character data set by a program: padded with white space other than blank, tab and line feed
						nv.Elem().SetString("\u00a0\r" + strings.TrimSpace(vv.Elem().String()) + "_m\r\u2028\u00a0")
					default:
						nv.Elem().SetString(vv.Elem().String() + "_m")
					}
					vv.Set(nv)
				}})
			}
			return
		case reflect.Int, reflect.Int8, reflect.Int16, reflect.Int32, reflect.Int64:
			if v.CanSet() {
				vv := v
				*out = append(*out, Slot{path, class, func() {
					nv := reflect.New(et)
					if vv.IsNil() {
						nv.Elem().SetInt(7)
					} else {
						nv.Elem().SetInt(vv.Elem().Int() + 7)
					}
					vv.Set(nv)
				}})
			}
			return
		}
		if v.IsNil() {
			return
		}
		if v.Elem().Kind() == reflect.Struct {
			p := v.Pointer()
			if seen[p] {
				return
			}
			seen[p] = true
		}
		slots(v.Elem(), path, class, out, seen)
	case reflect.Interface:
		if !v.IsNil() && v.Elem().Kind() == reflect.Pointer {
			slots(v.Elem(), path, class, out, seen)
		}
	case reflect.Struct:
		t := v.Type()
		if t.PkgPath() == "encoding/xml" {
			return
		}
		for i := 0; i < v.NumField(); i++ {
			f := t.Field(i)
			if !f.IsExported() {
				continue
			}
			if tag, ok := f.Tag.Lookup("xml"); ok && (tag == "-" || strings.HasPrefix(tag, "-,")) {
				continue
			}
			slots(v.Field(i), path+"/"+f.Name, t.Name()+"."+f.Name, out, seen)
		}
	case reflect.Slice, reflect.Array:
		for i := 0; i < v.Len(); i++ {
			slots(v.Index(i), fmt.Sprintf("%s[%d]", path, i), class, out, seen)
		}
	case reflect.Bool:
		if v.CanSet() {
			vv := v
			*out = append(*out, Slot{path, class, func() { vv.SetBool(!vv.Bool()) }})
		}
	case reflect.String:
		if v.CanSet() {
			vv := v
			*out = append(*out, Slot{path, class, func() {
				if vv.String() == "" {
					vv.SetString("m")
				} else {
					vv.SetString(vv.String() + "_m")
				}
			}})
		}
	case reflect.Int, reflect.Int8, reflect.Int16, reflect.Int32, reflect.Int64:
		if v.CanSet() {
			vv := v
			*out = append(*out, Slot{path, class, func() { vv.SetInt(vv.Int() + 7) }})
		}
	}
}

// Owners maps every id of the model to (a pointer to) the element that carries it: the outermost struct of
// the chain of embedded base types in which the IdField sits (e.g. *FormalExpression for an id stored in
// FormalExpression.Expression.BaseElementWithMixedContent.IdField).
func Owners(v any) map[string]any {
	out := map[string]any{}
	owners(reflect.ValueOf(v), reflect.Value{}, out, map[uintptr]bool{})
	return out
}

func owners(v, owner reflect.Value, out map[string]any, seen map[uintptr]bool) {
	if !v.IsValid() {
		return
	}
	switch v.Kind() {
	case reflect.Pointer:
		if v.IsNil() {
			return
		}
		if v.Elem().Kind() == reflect.Struct {
			if seen[v.Pointer()] {
				return
			}
			seen[v.Pointer()] = true
		}
		owners(v.Elem(), owner, out, seen)
	case reflect.Interface:
		if !v.IsNil() {
			owners(v.Elem(), reflect.Value{}, out, seen)
		}
	case reflect.Struct:
		t := v.Type()
		if !owner.IsValid() {
			owner = v
		}
		for i := 0; i < v.NumField(); i++ {
			f := t.Field(i)
			if !f.IsExported() {
				continue
			}
			if f.Name == "IdField" {
				if s := textOf(v.Field(i)); s != "" && owner.CanAddr() {
					if _, dup := out[s]; !dup {
						out[s] = owner.Addr().Interface()
					}
				}
				continue
			}
			if f.Anonymous {
				owners(v.Field(i), owner, out, seen) // embedded base type: same element
			} else {
				owners(v.Field(i), reflect.Value{}, out, seen)
			}
		}
	case reflect.Slice, reflect.Array:
		for i := 0; i < v.Len(); i++ {
			owners(v.Index(i), reflect.Value{}, out, seen)
		}
	}
}
