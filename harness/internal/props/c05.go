package props

import (
	"encoding/json"
	"fmt"
	"sort"
	"sync"

	bpmn "github.com/olive-io/bpmn/v2"

	"verif/internal/drive"
	"verif/internal/fw"
	"verif/internal/gen"
	"verif/internal/perturb"
	"verif/internal/quiesce"
	"verif/internal/step"
)

type c05Case struct {
	Name    string `json:"name"`
	N       int    `json:"n"`       // conditional branches
	Truth   int    `json:"truth"`   // bit i: condition i true
	Default bool   `json:"default"` // default branch present
	DefPos  int    `json:"defpos"`  // position of the default flow in the fork's outgoing list (0..N)
	Joins   int    `json:"joins"`   // bit i: branch i leads to the join (bit N: default branch)
	Order   []int  `json:"order"`   // finishing order of the activated branches (indices)
	Storm   bool   `json:"storm"`
	Reps    int    `json:"reps"`
}

func (c *c05Case) activated() []int {
	var a []int
	for i := 0; i < c.N; i++ {
		if c.Truth>>i&1 == 1 {
			a = append(a, i)
		}
	}
	if len(a) == 0 && c.Default {
		a = []int{c.N}
	}
	return a
}

func c05Graph(c *c05Case) *gen.Graph {
	g := gen.NewGraph("c05")
	s := g.Add(gen.Start, "start", "")
	t0 := g.Add(gen.Task, "t0", "")
	of := g.Add(gen.Or, "OF", "")
	g.Connect(s, t0, nil)
	g.Connect(t0, of, nil)
	var oj *gen.Node
	nb := c.N
	if c.Default {
		nb++
	}
	anyJoin := false
	for i := 0; i < nb; i++ {
		if c.Joins>>i&1 == 1 {
			anyJoin = true
		}
	}
	if anyJoin {
		oj = g.Add(gen.Or, "OJ", "")
		tj := g.Add(gen.Task, "tj", "")
		ej := g.Add(gen.End, "endj", "")
		g.Connect(oj, tj, nil)
		g.Connect(tj, ej, nil)
	}
	// order in which the fork lists its outgoing flows: conditional branches 0..N-1
	// with the default branch (index N) inserted at DefPos
	var order []int
	for i := 0; i < c.N; i++ {
		if c.Default && i == c.DefPos {
			order = append(order, c.N)
		}
		order = append(order, i)
	}
	if c.Default && c.DefPos >= c.N {
		order = append(order, c.N)
	}
	for _, i := range order {
		b := g.Add(gen.Task, fmt.Sprintf("b%d", i), "")
		if i == c.N {
			f := g.Connect(of, b, nil)
			of.Default = f.ID
		} else {
			g.Connect(of, b, &gen.Cond{Kind: "var", Var: fmt.Sprintf("c%d", i), Op: ">", Val: 0})
		}
		if c.Joins>>i&1 == 1 {
			g.Connect(b, oj, nil)
		} else {
			e := g.Add(gen.End, fmt.Sprintf("e%d", i), "")
			g.Connect(b, e, nil)
		}
	}
	return g
}

func c05Cases(tier string, seed uint64) []fw.Case {
	var cs []fw.Case
	for n := 1; n <= 4; n++ {
		for truth := 0; truth < 1<<n; truth++ {
			for _, def := range []bool{false, true} {
				nb := n
				if def {
					nb++
				}
				for joins := 0; joins < 1<<nb; joins++ {
					c := c05Case{N: n, Truth: truth, Default: def, Joins: joins, DefPos: n}
					if def {
						// the default flow takes every list position in turn over the grid
						c.DefPos = (truth + joins) % (n + 1)
					}
					act := c.activated()
					perms := fw.Permutations(len(act))
					if len(perms) == 0 {
						perms = [][]int{{}}
					}
					for pi, p := range perms {
						cc := c
						for _, k := range p {
							cc.Order = append(cc.Order, act[k])
						}
						cc.Name = fmt.Sprintf("n%d-t%d-d%v@%d-j%d-p%d", n, truth, def, c.DefPos, joins, pi)
						cs = append(cs, fw.MkCase("stepwise", &cc))
					}
					if len(act) >= 2 && (tier == "thorough" || (truth+joins)%5 == 0) {
						cc := c
						cc.Storm = true
						cc.Order = act
						cc.Reps = 3
						if tier == "thorough" {
							cc.Reps = 20
						}
						cc.Name = fmt.Sprintf("storm-n%d-t%d-d%v-j%d", n, truth, def, joins)
						cs = append(cs, fw.MkCase("storm", &cc))
					}
				}
			}
		}
	}
	return fw.Number(cs)
}

func c05Run(c *c05Case, env *fw.Env, v *fw.V) {
	g := c05Graph(c)
	defs, _, err := step.Parse(g)
	if err != nil {
		v.Inconclusive("parse", "%v", err)
		return
	}
	vars := map[string]any{}
	for i := 0; i < c.N; i++ {
		vars[fmt.Sprintf("c%d", i)] = c.Truth >> i & 1
	}
	if c.Storm {
		perturb.ConfigureSites(map[string]float64{"gw.inclusive.next": 0.5, "gw.inclusive.tracker": 0.3, "gw.inclusive.activity": 0.5, "flow.action": 0.2, "tracer.bcast": 0.1}, 300)
	} else {
		perturb.Off()
	}
	in, err := drive.New(env.Label, defs, drive.Opts{ExtraSubs: 1, Vars: vars})
	if err != nil {
		v.Violate("new-process-error", "error", "%v", err)
		return
	}
	defer in.Cancel()
	fail := func() { v.Log = in.Tail(50) }
	quiet := func(what string) bool {
		q := in.Quiesce(step.Watchdog)
		v.Add("qpoints", 1)
		if !q.Quiescent {
			v.Inconclusive("watchdog", "no quiescent point %s: %v", what, quiesce.Summary(q.Gs))
			return false
		}
		if gs := quiesce.DriverIn(q.Gs, "taskTrace).Do"); len(gs) > 0 {
			v.Violate("caller-blocked", "taskTrace).Do", "%s: Do still blocked", what)
			return false
		}
		return true
	}
	if err := in.Start(); err != nil {
		v.Violate("start-error", "error", "%v", err)
		return
	}
	if !quiet("after start") {
		return
	}
	answer := func(act string) bool {
		for _, r := range in.Pending() {
			if r.Act == act {
				in.Answer(r, bpmn.DoWithResults(nil))
				return true
			}
		}
		return false
	}
	if !answer("t0") {
		v.Violate("fork-missing", "t0", "t0 not requested")
		fail()
		return
	}
	if !quiet("after answering t0") {
		fail()
		return
	}
	act := c.activated()
	shape := fmt.Sprintf("default=%v", c.Default)
	if c.Default && c.DefPos < c.N {
		shape += "-not-last"
	}
	var want []string
	for _, i := range act {
		want = append(want, fmt.Sprintf("b%d", i))
	}
	sort.Strings(want)
	got := in.PendingActs()
	if fmt.Sprint(got) != fmt.Sprint(want) {
		v.Violate("fork-branches", shape, "n=%d truth=%b default=%v: branches requested %v, expected %v (every true condition, or the default alone)", c.N, c.Truth, c.Default, got, want)
		fail()
		return
	}
	nerr := in.Count("ErrorNoFlow", "OF")
	wantErr := 0
	if len(act) == 0 {
		wantErr = 1
	}
	if nerr != wantErr {
		v.Violate("fork-error-trace", shape, "%d no-effective-flow error traces from the fork (expected %d)", nerr, wantErr)
	}
	if n := in.Count("Error", ""); n > 0 {
		v.Violate("unexpected-error-trace", shape, "%d unexpected error traces", n)
	}
	// joining activated branches
	joinSet := map[int]bool{}
	for _, i := range act {
		if c.Joins>>i&1 == 1 {
			joinSet[i] = true
		}
	}
	jcls := fmt.Sprintf("joining=%d-of-%d-activated", len(joinSet), len(act))
	tjCount := func() int { return in.Count("Task", "tj") }
	if c.Storm {
		var wg sync.WaitGroup
		barrier := make(chan struct{})
		for _, r := range in.Pending() {
			wg.Add(1)
			go func(r *drive.Req) {
				defer wg.Done()
				<-barrier
				in.Answer(r, bpmn.DoWithResults(nil))
			}(r)
		}
		close(barrier)
		wg.Wait()
		if !quiet("after the storm") {
			fail()
			return
		}
		// causal rule: tj not received before Do was called on every activated joining branch
		var tjSeq int64 = -1
		doCall := map[string]int64{}
		for _, e := range in.Log(0) {
			if e.Kind == "Task" && e.Node == "tj" && tjSeq < 0 {
				tjSeq = e.Seq
			}
			if e.Kind == "Do.call" {
				var name string
				var n int
				fmt.Sscanf(e.Node, "%2s#%d", &name, &n)
				doCall[name] = e.Seq
			}
		}
		for i := range joinSet {
			if s, ok := doCall[fmt.Sprintf("b%d", i)]; ok && tjSeq >= 0 && tjSeq < s {
				v.Violate("join-early", jcls, "task behind the join received (seq %d) before b%d was answered (seq %d)", tjSeq, i, s)
			}
		}
	} else {
		delivered := map[int]bool{}
		answered := 0
		for _, i := range c.Order {
			if !answer(fmt.Sprintf("b%d", i)) {
				v.Inconclusive("order", "b%d not pending", i)
				return
			}
			answered++
			if joinSet[i] {
				delivered[i] = true
			}
			if !quiet(fmt.Sprintf("after answering b%d", i)) {
				fail()
				return
			}
			n := tjCount()
			if n > 1 {
				v.Violate("join-twice", jcls, "task behind the join requested %d times for one fork activation", n)
				fail()
				return
			}
			if len(delivered) < len(joinSet) && n > 0 {
				v.Violate("join-early", jcls, "join released after %v although activated joining branches %v have not all delivered", keys(delivered), keys(joinSet))
				fail()
				return
			}
			if answered == len(act) && len(joinSet) > 0 && n != 1 {
				v.Violate("join-late", jcls, "every token of the fork has arrived or ended (order %v) but the task behind the join was requested %d times", c.Order, n)
				fail()
				return
			}
		}
	}
	n := tjCount()
	wantTj := 0
	if len(joinSet) > 0 {
		wantTj = 1
	}
	if n != wantTj {
		v.Violate("join-count", jcls, "task behind the join requested %d times, expected %d (activated %v, joining %v)", n, wantTj, act, keys(joinSet))
		fail()
		return
	}
	if wantTj == 1 {
		answer("tj")
		if !quiet("after answering tj") {
			fail()
			return
		}
	}
	if len(act) > 0 {
		if k := in.Count("CeaseFlow", ""); k != 1 {
			v.Violate("not-complete", jcls, "%d cease-flow traces after every task was answered; engine goroutines blocked: %v", k, topFrames(in))
			fail()
		}
	}
	v.Add("traces", len(in.Log(0)))
}

func topFrames(in *drive.Inst) []string {
	q := in.Quiesce(step.Watchdog)
	s := quiesce.Summary(quiesce.Engine(q.Gs))
	if len(s) > 12 {
		s = s[:12]
	}
	return s
}

func keys(m map[int]bool) []int {
	var k []int
	for i := range m {
		k = append(k, i)
	}
	sort.Ints(k)
	return k
}

func init() {
	fw.Register(&fw.Prop{
		ID:    "C05",
		Cases: c05Cases,
		Run: func(c fw.Case, env *fw.Env) *fw.V {
			v := fw.NewV(c)
			var cc c05Case
			if err := json.Unmarshal(c.Desc, &cc); err != nil {
				v.Inconclusive("descriptor", "%v", err)
				return v
			}
			reps := 1
			if cc.Storm {
				reps = cc.Reps
			}
			for i := 0; i < reps && !v.Violated(); i++ {
				fw.Rep(env, i, func(env *fw.Env) { c05Run(&cc, env, v) })
				v.Add("runs", 1)
			}
			v.Nontrivial = true
			return v
		},
		Rule:       "exhaustive grid: 1..4 conditional branches x all truth assignments x default present/absent x every subset of branches leading to the join (others end in their own end event) x all finishing orders of the activated branches; fork checked exactly (requests = true conditions / default alone / error trace), join checked against the window the statement gives (not before every activated joining branch delivered, exactly once by the time every token of the fork has arrived or ended, never twice); storm variants answer all branches concurrently with tracker hooks active; every cell non-trivial; distinct = descriptor hash",
		Exhaustive: func(string) bool { return true },
		Assumptions: []string{"branches contain single tasks; nested gateways inside inclusive blocks are C01's territory"},
	})
}
