package props

import (
	"encoding/json"
	"fmt"
	"sort"
	"sync"

	bpmn "github.com/olive-io/bpmn/v2"

	"verif/internal/drive"
	"verif/internal/fw"
	"verif/internal/gen"
	"verif/internal/perturb"
	"verif/internal/quiesce"
	"verif/internal/step"
)

type c05Case struct {
	Name    string `json:"name"`
	N       int    `json:"n"`       // conditional branches
	Truth   int    `json:"truth"`   // bit i: condition i true
	Default bool   `json:"default"` // default branch present
	DefPos  int    `json:"defpos"`  // position of the default flow in the fork's outgoing list (0..N)
	Joins   int    `json:"joins"`   // bit i: branch i leads to the join (bit N: default branch)
	Order   []int  `json:"order"`   // finishing order of the activated branches (indices)
	Storm   bool   `json:"storm"`
	Reps    int    `json:"reps"`
	// second activation of the same fork and join: the task behind the join loops back once,
	// its answer stores the truth assignment of the second pass
	Loop   bool  `json:"loop,omitempty"`
	Truth2 int   `json:"truth2,omitempty"`
	Order2 []int `json:"order2,omitempty"`
	// Two: two tokens reach the same fork one after the other from two start events (the second through a
	// task whose answer stores the truth assignment Truth2); branches end on their own, no join
	Two bool `json:"two,omitempty"`
	// Implicit: one of the two activated branches splits again at a task with two outgoing flows (both lead to the
	// join); ImplOrder is the order in which a, b, c, d are answered
	Implicit  bool     `json:"implicit,omitempty"`
	ImplOrder []string `json:"impl_order,omitempty"`
	// Via: every branch runs through a gateway of another kind with one incoming and one outgoing flow ("xor",
	// "and") between its task and the join (or its end event): such a gateway forwards the token, it neither
	// starts nor ends anything the inclusive join has to know about
	Via string `json:"via,omitempty"`
}

func (c *c05Case) activated() []int { return c.activatedFor(c.Truth) }

func (c *c05Case) activatedFor(truth int) []int {
	var a []int
	for i := 0; i < c.N; i++ {
		if truth>>i&1 == 1 {
			a = append(a, i)
		}
	}
	if len(a) == 0 && c.Default {
		a = []int{c.N}
	}
	return a
}

func c05Graph(c *c05Case) *gen.Graph {
	g := gen.NewGraph("c05")
	s := g.Add(gen.Start, "start", "")
	t0 := g.Add(gen.Task, "t0", "")
	of := g.Add(gen.Or, "OF", "")
	g.Connect(s, t0, nil)
	var xm *gen.Node
	if c.Loop {
		xm = g.Add(gen.Xor, "XM", "")
		g.Connect(t0, xm, nil)
		g.Connect(xm, of, nil)
	} else {
		g.Connect(t0, of, nil)
	}
	var oj *gen.Node
	nb := c.N
	if c.Default {
		nb++
	}
	anyJoin := false
	for i := 0; i < nb; i++ {
		if c.Joins>>i&1 == 1 {
			anyJoin = true
		}
	}
	if anyJoin {
		oj = g.Add(gen.Or, "OJ", "")
		tj := g.Add(gen.Task, "tj", "")
		ej := g.Add(gen.End, "endj", "")
		g.Connect(oj, tj, nil)
		if c.Loop {
			tj.Writes = []string{"again"}
			for i := 0; i < c.N; i++ {
				tj.Writes = append(tj.Writes, fmt.Sprintf("c%d", i))
			}
			xs := g.Add(gen.Xor, "XS", "")
			g.Connect(tj, xs, nil)
			g.Connect(xs, xm, &gen.Cond{Kind: "var", Var: "again", Op: ">", Val: 0})
			d := g.Connect(xs, ej, nil)
			xs.Default = d.ID
		} else {
			g.Connect(tj, ej, nil)
		}
	}
	// order in which the fork lists its outgoing flows: conditional branches 0..N-1
	// with the default branch (index N) inserted at DefPos
	var order []int
	for i := 0; i < c.N; i++ {
		if c.Default && i == c.DefPos {
			order = append(order, c.N)
		}
		order = append(order, i)
	}
	if c.Default && c.DefPos >= c.N {
		order = append(order, c.N)
	}
	for _, i := range order {
		b := g.Add(gen.Task, fmt.Sprintf("b%d", i), "")
		if i == c.N {
			f := g.Connect(of, b, nil)
			of.Default = f.ID
		} else {
			g.Connect(of, b, &gen.Cond{Kind: "var", Var: fmt.Sprintf("c%d", i), Op: ">", Val: 0})
		}
		from := b
		if c.Via != "" {
			kind := gen.Xor
			if c.Via == "and" {
				kind = gen.And
			}
			via := g.Add(kind, fmt.Sprintf("via%d", i), "")
			g.Connect(b, via, nil)
			from = via
		}
		if c.Joins>>i&1 == 1 {
			g.Connect(from, oj, nil)
		} else {
			e := g.Add(gen.End, fmt.Sprintf("e%d", i), "")
			g.Connect(from, e, nil)
		}
	}
	return g
}

func c05Cases(tier string, seed uint64) []fw.Case {
	var cs []fw.Case
	for n := 1; n <= 4; n++ {
		for truth := 0; truth < 1<<n; truth++ {
			for _, def := range []bool{false, true} {
				nb := n
				if def {
					nb++
				}
				for joins := 0; joins < 1<<nb; joins++ {
					c := c05Case{N: n, Truth: truth, Default: def, Joins: joins, DefPos: n}
					if def {
						// the default flow takes every list position in turn over the grid
						c.DefPos = (truth + joins) % (n + 1)
					}
					act := c.activated()
					perms := fw.Permutations(len(act))
					if len(perms) == 0 {
						perms = [][]int{{}}
					}
					for pi, p := range perms {
						cc := c
						for _, k := range p {
							cc.Order = append(cc.Order, act[k])
						}
						cc.Name = fmt.Sprintf("n%d-t%d-d%v@%d-j%d-p%d", n, truth, def, c.DefPos, joins, pi)
						cs = append(cs, fw.MkCase("stepwise", &cc))
					}
					// the same with a forwarding gateway of another kind on every branch
					if len(act) >= 2 && joins != 0 && (tier == "thorough" || (truth+joins)%3 == 0) {
						for pi, p := range perms {
							cc := c
							cc.Via = []string{"xor", "and"}[(truth+joins/3+pi)%2]
							for _, k := range p {
								cc.Order = append(cc.Order, act[k])
							}
							cc.Name = fmt.Sprintf("via-%s-n%d-t%d-d%v@%d-j%d-p%d", cc.Via, n, truth, def, c.DefPos, joins, pi)
							cs = append(cs, fw.MkCase("via", &cc))
						}
					}
					// second activation in a loop: needs a join that releases in the first pass
					joining := 0
					for _, i := range act {
						if joins>>i&1 == 1 {
							joining++
						}
					}
					if joining > 0 && n <= 3 {
						for truth2 := 0; truth2 < 1<<n; truth2++ {
							if tier != "thorough" && (truth+joins+truth2)%2 == 1 {
								continue
							}
							cc := c
							cc.Loop, cc.Truth2 = true, truth2
							cc.Order = act
							act2 := cc.activatedFor(truth2)
							for rev := 0; rev < 2; rev++ {
								c3 := cc
								c3.Order2 = append([]int(nil), act2...)
								if rev == 1 {
									if len(act2) < 2 {
										break
									}
									for l, r := 0, len(c3.Order2)-1; l < r; l, r = l+1, r-1 {
										c3.Order2[l], c3.Order2[r] = c3.Order2[r], c3.Order2[l]
									}
								}
								c3.Name = fmt.Sprintf("loop-n%d-t%d>%d-d%v@%d-j%d-r%d", n, truth, truth2, def, c.DefPos, joins, rev)
								cs = append(cs, fw.MkCase("loop", &c3))
							}
						}
					}
					if len(act) >= 2 && (tier == "thorough" || (truth+joins)%5 == 0) {
						cc := c
						cc.Storm = true
						cc.Order = act
						cc.Reps = 3
						if tier == "thorough" {
							cc.Reps = 20
						}
						cc.Name = fmt.Sprintf("storm-n%d-t%d-d%v-j%d", n, truth, def, joins)
						cs = append(cs, fw.MkCase("storm", &cc))
					}
				}
			}
		}
	}
	// a branch that splits again at a task with two outgoing flows
	names := []string{"a", "b", "c", "d"}
	for _, perm := range fw.Permutations(4) {
		pos := map[string]int{}
		var order []string
		for i, pi := range perm {
			pos[names[pi]] = i
			order = append(order, names[pi])
		}
		if pos["b"] > pos["c"] || pos["b"] > pos["d"] {
			continue
		}
		c := c05Case{N: 2, Truth: 3, Implicit: true, ImplOrder: order}
		c.Name = fmt.Sprintf("implicit-%v", order)
		cs = append(cs, fw.MkCase("implicit-split", &c))
	}
	// two tokens at one fork, one after the other
	for n := 1; n <= 2; n++ {
		for _, def := range []bool{false, true} {
			for t1 := 0; t1 < 1<<n; t1++ {
				for t2 := 0; t2 < 1<<n; t2++ {
					for _, order := range []int{0, 1} {
						c := c05Case{N: n, Truth: t1, Truth2: t2, Default: def, DefPos: n * order, Two: true}
						c.Name = fmt.Sprintf("two-n%d-def%v@%d-t%d-t%d", n, def, c.DefPos, t1, t2)
						if !def && order == 1 {
							continue
						}
						cs = append(cs, fw.MkCase("two-tokens", &c))
					}
				}
			}
		}
	}
	return fw.Number(cs)
}

// c05Implicit: OF -> a -> OJ ; OF -> b -> {c, d} -> OJ ; OJ -> tj -> end. Whatever the order in which a, b, c, d
// finish: by the time every token has arrived the join has released exactly one token, never a second one,
// and the instance completes.
func c05Implicit(c *c05Case, env *fw.Env, v *fw.V) {
	g := gen.NewGraph("c05i")
	s := g.Add(gen.Start, "start", "")
	of := g.Add(gen.Or, "OF", "")
	oj := g.Add(gen.Or, "OJ", "")
	g.Connect(s, of, nil)
	ts := map[string]*gen.Node{}
	for _, n := range []string{"a", "b", "c", "d", "tj"} {
		ts[n] = g.Add(gen.Task, n, "")
	}
	tr := &gen.Cond{Kind: "const", Lit: true}
	g.Connect(of, ts["a"], tr)
	g.Connect(of, ts["b"], tr)
	g.Connect(ts["a"], oj, nil)
	g.Connect(ts["b"], ts["c"], nil)
	g.Connect(ts["b"], ts["d"], nil)
	g.Connect(ts["c"], oj, nil)
	g.Connect(ts["d"], oj, nil)
	g.Connect(oj, ts["tj"], nil)
	e := g.Add(gen.End, "end", "")
	g.Connect(ts["tj"], e, nil)
	defs, _, err := step.Parse(g)
	if err != nil {
		v.Inconclusive("parse", "%v", err)
		return
	}
	perturb.Off()
	in, err := drive.New(env.Label, defs, drive.Opts{ExtraSubs: 1})
	if err != nil {
		v.Violate("new-process-error", "error", "%v", err)
		return
	}
	defer in.Cancel()
	quiet := func(what string) bool {
		q := in.Quiesce(step.Watchdog)
		v.Add("qpoints", 1)
		if !q.Quiescent {
			v.Inconclusive("watchdog", "no quiescent point %s: %v", what, quiesce.Summary(q.Gs))
			return false
		}
		return true
	}
	if err := in.Start(); err != nil {
		v.Violate("start-error", "error", "%v", err)
		return
	}
	if !quiet("after start") {
		return
	}
	for i, n := range c.ImplOrder {
		var req *drive.Req
		for _, r := range in.Pending() {
			if r.Act == n {
				req = r
			}
		}
		if req == nil {
			v.Violate("fork-branches", "implicit-split", "task %s is not pending at step %d of %v (pending %v)", n, i, c.ImplOrder, in.PendingActs())
			v.Log = in.Tail(40)
			return
		}
		in.Answer(req, bpmn.DoWithResults(nil))
		if !quiet("after answering " + n) {
			return
		}
		if got := in.Count("Task", "tj"); got > 1 {
			v.Violate("join-twice", "implicit-split", "the task behind the join was requested %d times after %v", got, c.ImplOrder[:i+1])
			v.Log = in.Tail(40)
			return
		}
		if got := in.Count("Task", "tj"); got == 1 && i == 0 {
			v.Violate("join-early", "implicit-split", "the join released after only %v was answered", c.ImplOrder[:1])
			return
		}
	}
	if got := in.Count("Task", "tj"); got != 1 {
		v.Violate("join-late", "implicit-split", "every token of the fork has arrived (order %v) but the task behind the join was requested %d times", c.ImplOrder, got)
		v.Log = in.Tail(40)
		return
	}
	for _, r := range in.Pending() {
		in.Answer(r, bpmn.DoWithResults(nil))
	}
	if !quiet("after answering the task behind the join") {
		return
	}
	if got := in.Count("Task", "tj"); got != 1 {
		v.Violate("join-twice", "implicit-split", "the task behind the join was requested %d times in total", got)
	}
	if n := in.Count("CeaseFlow", ""); n != 1 {
		v.Violate("not-complete", "implicit-split", "everything answered (order %v) but %d cease-flow traces", c.ImplOrder, n)
		v.Log = in.Tail(40)
	}
}

// c05Two: s1 -> XM ; s2 -> hold -> XM ; XM -> OF (inclusive fork) -> b_i -> own end events. The first token is
// routed with the initial truth assignment, the second after `hold` has stored Truth2. Each token on its own
// gets a token on every true branch / the default branch alone / an error trace.
func c05Two(c *c05Case, env *fw.Env, v *fw.V) {
	g := gen.NewGraph("c05two")
	s1 := g.Add(gen.Start, "s1", "")
	s2 := g.Add(gen.Start, "s2", "")
	hold := g.Add(gen.Task, "hold", "")
	xm := g.Add(gen.Xor, "XM", "")
	of := g.Add(gen.Or, "OF", "")
	g.Connect(s1, xm, nil)
	g.Connect(s2, hold, nil)
	g.Connect(hold, xm, nil)
	g.Connect(xm, of, nil)
	var order []int
	for i := 0; i < c.N; i++ {
		if c.Default && i == c.DefPos {
			order = append(order, c.N)
		}
		order = append(order, i)
	}
	if c.Default && c.DefPos >= c.N {
		order = append(order, c.N)
	}
	for _, i := range order {
		b := g.Add(gen.Task, fmt.Sprintf("b%d", i), "")
		e := g.Add(gen.End, fmt.Sprintf("e%d", i), "")
		if i == c.N {
			f := g.Connect(of, b, nil)
			of.Default = f.ID
		} else {
			g.Connect(of, b, &gen.Cond{Kind: "var", Var: fmt.Sprintf("c%d", i), Op: ">", Val: 0})
			hold.Writes = append(hold.Writes, fmt.Sprintf("c%d", i))
		}
		g.Connect(b, e, nil)
	}
	defs, _, err := step.Parse(g)
	if err != nil {
		v.Inconclusive("parse", "%v", err)
		return
	}
	perturb.Off()
	vars := map[string]any{}
	for i := 0; i < c.N; i++ {
		vars[fmt.Sprintf("c%d", i)] = c.Truth >> i & 1
	}
	in, err := drive.New(env.Label, defs, drive.Opts{ExtraSubs: 1, Vars: vars})
	if err != nil {
		v.Violate("new-process-error", "error", "%v", err)
		return
	}
	defer in.Cancel()
	cls := fmt.Sprintf("two-tokens-default=%v", c.Default)
	want := map[string]int{}
	errs := 0
	expect := func(truth int) {
		a := c.activatedFor(truth)
		if len(a) == 0 {
			errs++
		}
		for _, i := range a {
			want[fmt.Sprintf("b%d", i)]++
		}
	}
	check := func(what string) bool {
		q := in.Quiesce(step.Watchdog)
		v.Add("qpoints", 1)
		if !q.Quiescent {
			v.Inconclusive("watchdog", "no quiescent point %s: %v", what, quiesce.Summary(q.Gs))
			return false
		}
		for i := 0; i <= c.N; i++ {
			b := fmt.Sprintf("b%d", i)
			if got := in.Count("Task", b); got != want[b] {
				v.Violate("fork-branches", cls, "%s: branch %s requested %d times, expected %d (truth assignments %d then %d, default %v)", what, b, got, want[b], c.Truth, c.Truth2, c.Default)
				v.Log = in.Tail(40)
				return false
			}
		}
		if got := in.Count("ErrorNoFlow", "OF"); got != errs {
			v.Violate("fork-error-count", cls, "%s: %d no-effective-flow error traces identifying the fork, expected %d (truth assignments %d then %d, default %v)", what, got, errs, c.Truth, c.Truth2, c.Default)
			v.Log = in.Tail(40)
			return false
		}
		return true
	}
	if err := in.Start(); err != nil {
		v.Violate("start-error", "error", "%v", err)
		return
	}
	expect(c.Truth)
	if !check("after the first token reached the fork") {
		return
	}
	res := map[string]any{}
	for i := 0; i < c.N; i++ {
		res[fmt.Sprintf("c%d", i)] = c.Truth2 >> i & 1
	}
	for _, r := range in.Pending() {
		if r.Act == "hold" {
			in.Answer(r, bpmn.DoWithResults(res))
		}
	}
	expect(c.Truth2)
	if !check("after the second token reached the fork") {
		return
	}
	for guard := 0; guard < 3; guard++ {
		for _, r := range in.Pending() {
			in.Answer(r, bpmn.DoWithResults(nil))
		}
		in.Quiesce(step.Watchdog)
	}
	// (a token that found neither a true condition nor a default flow stays where it is: the statement asks
	// for the error trace, not for completion)
	if n := in.Count("CeaseFlow", ""); errs == 0 && n != 1 {
		v.Violate("not-complete", cls, "every branch task answered but %d cease-flow traces", n)
		v.Log = in.Tail(40)
	}
}

func c05Run(c *c05Case, env *fw.Env, v *fw.V) {
	g := c05Graph(c)
	defs, _, err := step.Parse(g)
	if err != nil {
		v.Inconclusive("parse", "%v", err)
		return
	}
	vars := map[string]any{}
	for i := 0; i < c.N; i++ {
		vars[fmt.Sprintf("c%d", i)] = c.Truth >> i & 1
	}
	if c.Storm {
		perturb.ConfigureSites(map[string]float64{"gw.inclusive.next": 0.5, "gw.inclusive.tracker": 0.3, "gw.inclusive.activity": 0.5, "flow.action": 0.2, "tracer.bcast": 0.1}, 300)
	} else {
		perturb.Off()
	}
	in, err := drive.New(env.Label, defs, drive.Opts{ExtraSubs: 1, Vars: vars})
	if err != nil {
		v.Violate("new-process-error", "error", "%v", err)
		return
	}
	defer in.Cancel()
	fail := func() { v.Log = in.Tail(50) }
	quiet := func(what string) bool {
		q := in.Quiesce(step.Watchdog)
		v.Add("qpoints", 1)
		if !q.Quiescent {
			v.Inconclusive("watchdog", "no quiescent point %s: %v", what, quiesce.Summary(q.Gs))
			return false
		}
		if gs := quiesce.DriverIn(q.Gs, "taskTrace).Do"); len(gs) > 0 {
			v.Violate("caller-blocked", "taskTrace).Do", "%s: Do still blocked", what)
			return false
		}
		return true
	}
	if err := in.Start(); err != nil {
		v.Violate("start-error", "error", "%v", err)
		return
	}
	if !quiet("after start") {
		return
	}
	answer := func(act string) bool {
		for _, r := range in.Pending() {
			if r.Act == act {
				in.Answer(r, bpmn.DoWithResults(nil))
				return true
			}
		}
		return false
	}
	if !answer("t0") {
		v.Violate("fork-missing", "t0", "t0 not requested")
		fail()
		return
	}
	if !quiet("after answering t0") {
		fail()
		return
	}
	shape := fmt.Sprintf("default=%v", c.Default)
	if c.Default && c.DefPos < c.N {
		shape += "-not-last"
	}
	type pass struct {
		truth int
		order []int
	}
	passes := []pass{{c.Truth, c.Order}}
	if c.Loop {
		passes = append(passes, pass{c.Truth2, c.Order2})
		shape += "-second-activation"
	}
	wantErr, wantTjTotal := 0, 0
	allConsumed := true
	for pi, p := range passes {
		act := c.activatedFor(p.truth)
		last := pi == len(passes)-1
		var want []string
		for _, i := range act {
			want = append(want, fmt.Sprintf("b%d", i))
		}
		sort.Strings(want)
		got := in.PendingActs()
		if fmt.Sprint(got) != fmt.Sprint(want) {
			v.Violate("fork-branches", shape, "activation %d: n=%d truth=%b default=%v: branches requested %v, expected %v (every true condition, or the default alone)", pi+1, c.N, p.truth, c.Default, got, want)
			fail()
			return
		}
		if len(act) == 0 {
			wantErr++
			allConsumed = false // completion after a token died at the fork is not demanded here
		}
		if nerr := in.Count("ErrorNoFlow", "OF"); nerr != wantErr {
			v.Violate("fork-error-trace", shape, "%d no-effective-flow error traces from the fork (expected %d)", nerr, wantErr)
		}
		if n := in.Count("Error", ""); n > 0 {
			v.Violate("unexpected-error-trace", shape, "%d unexpected error traces", n)
		}
		// joining activated branches
		joinSet := map[int]bool{}
		for _, i := range act {
			if c.Joins>>i&1 == 1 {
				joinSet[i] = true
			}
		}
		jcls := fmt.Sprintf("joining=%d-of-%d-activated", len(joinSet), len(act))
		if pi > 0 {
			jcls += "-second-activation"
		}
		base := wantTjTotal
		tjCount := func() int { return in.Count("Task", "tj") - base }
		if c.Storm {
			var wg sync.WaitGroup
			barrier := make(chan struct{})
			for _, r := range in.Pending() {
				wg.Add(1)
				go func(r *drive.Req) {
					defer wg.Done()
					<-barrier
					in.Answer(r, bpmn.DoWithResults(nil))
				}(r)
			}
			close(barrier)
			wg.Wait()
			if !quiet("after the storm") {
				fail()
				return
			}
			// causal rule: tj not received before Do was called on every activated joining branch
			var tjSeq int64 = -1
			doCall := map[string]int64{}
			for _, e := range in.Log(0) {
				if e.Kind == "Task" && e.Node == "tj" && tjSeq < 0 {
					tjSeq = e.Seq
				}
				if e.Kind == "Do.call" {
					var name string
					var n int
					fmt.Sscanf(e.Node, "%2s#%d", &name, &n)
					doCall[name] = e.Seq
				}
			}
			for i := range joinSet {
				if s, ok := doCall[fmt.Sprintf("b%d", i)]; ok && tjSeq >= 0 && tjSeq < s {
					v.Violate("join-early", jcls, "task behind the join received (seq %d) before b%d was answered (seq %d)", tjSeq, i, s)
				}
			}
		} else {
			delivered := map[int]bool{}
			answered := 0
			for _, i := range p.order {
				if !answer(fmt.Sprintf("b%d", i)) {
					v.Inconclusive("order", "b%d not pending", i)
					return
				}
				answered++
				if joinSet[i] {
					delivered[i] = true
				}
				if !quiet(fmt.Sprintf("after answering b%d", i)) {
					fail()
					return
				}
				n := tjCount()
				if n > 1 {
					v.Violate("join-twice", jcls, "task behind the join requested %d times for one fork activation", n)
					fail()
					return
				}
				if len(delivered) < len(joinSet) && n > 0 {
					v.Violate("join-early", jcls, "join released after %v although activated joining branches %v have not all delivered", keys(delivered), keys(joinSet))
					fail()
					return
				}
				if answered == len(act) && len(joinSet) > 0 && n != 1 {
					v.Violate("join-late", jcls, "every token of the fork has arrived or ended (order %v) but the task behind the join was requested %d times", p.order, n)
					fail()
					return
				}
			}
		}
		n := tjCount()
		wantTj := 0
		if len(joinSet) > 0 {
			wantTj = 1
		}
		if n != wantTj {
			v.Violate("join-count", jcls, "task behind the join requested %d times, expected %d (activated %v, joining %v)", n, wantTj, act, keys(joinSet))
			fail()
			return
		}
		wantTjTotal += wantTj
		if wantTj == 1 {
			res := map[string]any{}
			if c.Loop {
				res["again"] = 0
				if !last {
					res["again"] = 1
					for i := 0; i < c.N; i++ {
						res[fmt.Sprintf("c%d", i)] = passes[pi+1].truth >> i & 1
					}
				}
			}
			for _, r := range in.Pending() {
				if r.Act == "tj" {
					in.Answer(r, bpmn.DoWithResults(res))
				}
			}
			if !quiet("after answering tj") {
				fail()
				return
			}
		} else if !last {
			v.Inconclusive("loop", "first activation did not reach the loop")
			return
		}
		if last && allConsumed {
			if k := in.Count("CeaseFlow", ""); k != 1 {
				v.Violate("not-complete", jcls, "%d cease-flow traces after every task was answered; engine goroutines blocked: %v", k, topFrames(in))
				fail()
			}
		}
	}
	v.Add("traces", len(in.Log(0)))
}

func topFrames(in *drive.Inst) []string {
	q := in.Quiesce(step.Watchdog)
	s := quiesce.Summary(quiesce.Engine(q.Gs))
	if len(s) > 12 {
		s = s[:12]
	}
	return s
}

func keys(m map[int]bool) []int {
	var k []int
	for i := range m {
		k = append(k, i)
	}
	sort.Ints(k)
	return k
}

func init() {
	fw.Register(&fw.Prop{
		ID:    "C05",
		Cases: c05Cases,
		Run: func(c fw.Case, env *fw.Env) *fw.V {
			v := fw.NewV(c)
			var cc c05Case
			if err := json.Unmarshal(c.Desc, &cc); err != nil {
				v.Inconclusive("descriptor", "%v", err)
				return v
			}
			reps := 1
			if cc.Storm {
				reps = cc.Reps
			}
			for i := 0; i < reps && !v.Violated(); i++ {
				fw.Rep(env, i, func(env *fw.Env) {
					if cc.Implicit {
						c05Implicit(&cc, env, v)
					} else if cc.Two {
						c05Two(&cc, env, v)
					} else {
						c05Run(&cc, env, v)
					}
				})
				v.Add("runs", 1)
			}
			v.Nontrivial = true
			return v
		},
		Rule:       "exhaustive grid: 1..4 conditional branches x all truth assignments x default present/absent x every subset of branches leading to the join (others end in their own end event) x all finishing orders of the activated branches; fork checked exactly (requests = true conditions / default alone / error trace), join checked against the window the statement gives (not before every activated joining branch delivered, exactly once by the time every token of the fork has arrived or ended, never twice); storm variants answer all branches concurrently with tracker hooks active; loop variants (n <= 3) send the token behind the join back through the same fork and join for a second activation with every truth assignment (stored by the answer of the task behind the join) and two finishing orders, all rules applied again per activation; two tokens reaching one fork one after the other from two start events (n <= 2, every pair of truth assignments, default absent / first / last): each token on its own gets its branches, the default alone, or an error trace; every cell non-trivial; distinct = descriptor hash; via family: a forwarding exclusive or parallel gateway between every branch's task and the join / end event",
		Exhaustive: func(string) bool { return true },
		Assumptions: []string{"branches contain single tasks; nested gateways inside inclusive blocks are C01's territory"},
	})
}
