package props

import (
	"regexp"
	_ "embed"
	"encoding/json"
	"encoding/xml"
	"fmt"
	"os"
	"path/filepath"
	"reflect"
	"sort"
	"strings"

	"github.com/olive-io/bpmn/schema"

	"verif/internal/canon"
	"verif/internal/fw"
	"verif/internal/gen"
	"verif/internal/step"
)

//go:embed kitchen.bpmn
var kitchenXML []byte

// c15Source returns the bytes of a bundled file or of the embedded "kitchen sink" document (@kitchen: one
// hand-written definitions carrying every element kind, attribute and olive extension the schema knows that
// fits into a page: imports, item definitions, messages, errors, escalations, resources, interfaces, data
// stores, categories, correlation, partner entities, global tasks, collaboration, lanes, io specifications,
// data associations with assignments, resource roles, loop characteristics, all event definitions, complex /
// event-based gateways, transactions, ad-hoc sub-processes, data states, annotations, diagram interchange).
func c15Source(f string) ([]byte, error) {
	if f == "@kitchen" {
		return kitchenXML, nil
	}
	return os.ReadFile(f)
}

type c15Case struct {
	Name  string           `json:"name"`
	Kind  string           `json:"kind"` // file | program | rich
	File  string           `json:"file,omitempty"`
	AST   *gen.Block       `json:"ast,omitempty"`
	NV    int              `json:"nv,omitempty"`
	Vars  map[string]int64 `json:"vars,omitempty"`
	Order []string         `json:"order,omitempty"`
	Rich  int              `json:"rich,omitempty"` // PRNG index of the rich definitions
	Shard  int             `json:"shard,omitempty"`  // mutate: this shard ...
	Shards int             `json:"shards,omitempty"` // ... of so many
	XPath bool             `json:"xpath,omitempty"`
	Seed  uint64           `json:"seed,omitempty"`
}

func bundledFiles() []string {
	var out []string
	for _, pat := range []string{"/repo/testdata/*.bpmn", "/repo/examples/*/*.bpmn", "/repo/schema/testdata/*.bpmn", "/repo/model/testdata/*.bpmn"} {
		fs, _ := filepath.Glob(pat)
		out = append(out, fs...)
	}
	sort.Strings(out)
	return out
}

func c15Cases(tier string, seed uint64) []fw.Case {
	rng := fw.NewRng(seed, "C15")
	var cs []fw.Case
	for _, f := range bundledFiles() {
		c := c15Case{Kind: "file", File: f, Name: "file/" + strings.TrimPrefix(f, "/repo/")}
		cs = append(cs, fw.MkCase("file", &c))
	}
	nprog, nrich := 120, 150
	if tier == "thorough" {
		nprog, nrich = 1500, 3000
	}
	progs := forcedPairs(rng)
	progs = append(progs, randomProgs(rng, nprog, 3, 14)...)
	for i, p := range progs {
		g := gen.Lower("p", p.AST)
		vars := zeroData(assignments(p.NV, 1, rng)[0], p.AST)
		base := step.Case{G: g, Vars: vars, Lenient: hasOr(g)}
		orders, _ := step.Orders(&base, 1, rng)
		var o []string
		if len(orders) > 0 {
			o = orders[0]
		}
		c := c15Case{Kind: "program", AST: p.AST, NV: p.NV, Vars: vars, Order: o, XPath: i%7 == 3, Name: "program/" + p.Name}
		cs = append(cs, fw.MkCase("program", &c))
	}
	for i := 0; i < nrich; i++ {
		c := c15Case{Kind: "rich", Rich: i, Seed: seed, Name: fmt.Sprintf("rich/%d", i)}
		cs = append(cs, fw.MkCase("rich", &c))
	}
	// a parsed model among other documents parsed in the same program
	nn := 8
	if tier == "thorough" {
		nn = 80
	}
	for i := 0; i < nn; i++ {
		c := c15Case{Kind: "neighbours", Rich: i, Seed: seed, XPath: i%2 == 1, Name: fmt.Sprintf("neighbours/%d", i)}
		cs = append(cs, fw.MkCase("neighbours", &c))
	}
	// mutation sweep: every attribute / text leaf of a model changed on its own, then the round trip
	nm := 6
	if tier == "thorough" {
		nm = 40
	}
	const shards = 4
	cs = append(cs, fw.MkCase("file", &c15Case{Kind: "file", File: "@kitchen", Name: "file/@kitchen"}))
	for sh := 0; sh < 16; sh++ {
		c := c15Case{Kind: "mutate", File: "@kitchen", Shard: sh, Shards: 16, Name: fmt.Sprintf("mutate/@kitchen/%d", sh)}
		cs = append(cs, fw.MkCase("mutate", &c))
	}
	for _, f := range bundledFiles() {
		for sh := 0; sh < shards; sh++ {
			c := c15Case{Kind: "mutate", File: f, Shard: sh, Shards: shards, Name: fmt.Sprintf("mutate/%s/%d", f, sh)}
			cs = append(cs, fw.MkCase("mutate", &c))
		}
	}
	for i := 0; i < nm; i++ {
		for sh := 0; sh < shards; sh++ {
			c := c15Case{Kind: "mutate", Rich: i, Seed: seed, Shard: sh, Shards: shards, Name: fmt.Sprintf("mutate/rich%d/%d", i, sh)}
			cs = append(cs, fw.MkCase("mutate", &c))
		}
	}
	return fw.Number(cs)
}

// richXML builds definitions exercising every supported flow-node kind and the olive extensions.
func richXML(seed uint64, idx int) string {
	rng := fw.NewRng(seed, fmt.Sprintf("rich%d", idx))
	g := gen.NewGraph("rich")
	s := g.Add(gen.Start, "start", "")
	prev := s
	link := func(n *gen.Node, c *gen.Cond) {
		g.Connect(prev, n, c)
		prev = n
	}
	tags := []string{"task", "serviceTask", "userTask", "scriptTask", "manualTask", "businessRuleTask", "sendTask", "receiveTask", "callActivity"}
	nt := 2 + rng.Intn(5)
	for i := 0; i < nt; i++ {
		t := g.Add(gen.Task, "", "")
		t.Tag = tags[rng.Intn(len(tags))]
		if rng.Bool() {
			t.Writes = []string{"w" + fmt.Sprint(i)}
		}
		if rng.Bool() {
			t.Retries = 1 + rng.Intn(3)
		}
		if rng.Bool() {
			t.Props = []gen.PropItem{{Name: "p", Value: "1", Type: "integer"}, {Name: "q", Ref: "$v.a"}, {Name: "s with <&>", Value: "x \"y\""},
				{Name: "both", Value: "fallback", Type: "string", Ref: "$order.tenant"}, {Name: "typed-ref", Type: "object", Ref: "$v"}, {Name: "zero", Value: "0", Type: "float"}}
		}
		if rng.Bool() {
			t.Headers = []gen.PropItem{{Name: "h", Value: "v"}, {Name: "hboth", Value: "fallback", Ref: "$order.tenant"}, {Name: "href", Ref: "$v.a"}, {Name: "hbool", Value: "true", Type: "boolean"}}
		}
		if rng.Bool() {
			t.Outputs = []string{"do1"}
			t.Inputs = []string{"do1"}
		}
		// the extension elements that carry plain attributes: a script with every result type (the default one
		// spelled out, and none), a called decision, a called element
		switch rng.Intn(4) {
		case 0:
			rt := []string{"string", "integer", "boolean", "float", "object", "array", ""}[rng.Intn(7)]
			x := fmt.Sprintf(`<olive:script expression="a + %d" result="r%d"`, i, i)
			if rt != "" {
				x += fmt.Sprintf(` resultType="%s"`, rt)
			}
			t.Ext = append(t.Ext, x+"/>")
		case 1:
			t.Ext = append(t.Ext, fmt.Sprintf(`<olive:calledDecision decisionId="d%d" result="dr"/>`, i))
		case 2:
			t.Ext = append(t.Ext, fmt.Sprintf(`<olive:calledElement definitionId="defs%d" processId="proc" propagateAllChildVariables="%v"/>`, i, rng.Bool()))
		}
		link(t, nil)
		if rng.Intn(3) == 0 {
			b := g.Add(gen.Boundary, "", "")
			b.Host = t.ID
			b.Intr = rng.Bool()
			b.Events = []gen.EventDef{{Type: "signal", Ref: "sigB"}}
			e := g.Add(gen.End, "", "")
			g.Connect(b, e, nil)
		}
	}
	// exclusive gateway with formal, informal and default flows
	x := g.Add(gen.Xor, "", "")
	link(x, nil)
	m := g.Add(gen.Xor, "", "")
	conds := []*gen.Cond{{Kind: "var", Var: "v0", Op: ">", Val: 3}, {Kind: "informal"}, {Kind: "var", Var: "v1", Op: "==", Val: 1, Lang: "xpath"}, {Kind: "obj", Var: "do1", Op: "<", Val: 2}}
	nb := 2 + rng.Intn(3)
	for i := 0; i < nb; i++ {
		t := g.Add(gen.Task, "", "")
		var c *gen.Cond
		if i > 0 {
			c = conds[rng.Intn(len(conds))]
		}
		f := g.Connect(x, t, c)
		if i == 0 {
			x.Default = f.ID
		}
		g.Connect(t, m, nil)
	}
	prev = m
	// inclusive and parallel blocks
	for _, kind := range []gen.Kind{gen.Or, gen.And} {
		if rng.Bool() {
			f := g.Add(kind, "", "")
			j := g.Add(kind, "", "")
			link(f, nil)
			for i := 0; i < 2; i++ {
				t := g.Add(gen.Task, "", "")
				var c *gen.Cond
				if kind == gen.Or {
					c = &gen.Cond{Kind: "var", Var: "v0", Op: "<=", Val: int64(i)}
				}
				g.Connect(f, t, c)
				g.Connect(t, j, nil)
			}
			prev = j
		}
	}
	// events
	evs := []gen.EventDef{{Type: "signal", Ref: "sig1"}, {Type: "message", Ref: "msg1"}, {Type: "message", Ref: "msg2", Op: "op1"},
		{Type: "timer", Time: "duration:PT5M"}, {Type: "timer", Time: "cycle:R3/PT1M"}, {Type: "timer", Time: "date:2030-01-01T00:00:00Z"}}
	if rng.Bool() {
		c := g.Add(gen.Catch, "", "")
		n := 1 + rng.Intn(2)
		for i := 0; i < n; i++ {
			c.Events = append(c.Events, evs[rng.Intn(len(evs))])
		}
		c.Par = n > 1 && rng.Bool()
		link(c, nil)
	}
	if rng.Bool() {
		th := g.Add(gen.Throw, "", "")
		th.Events = []gen.EventDef{evs[rng.Intn(3)]}
		link(th, nil)
	}
	if rng.Bool() {
		eg := g.Add(gen.EventGw, "", "")
		link(eg, nil)
		mm := g.Add(gen.Xor, "", "")
		for i := 0; i < 2; i++ {
			c := g.Add(gen.Catch, "", "")
			c.Events = []gen.EventDef{{Type: "signal", Ref: fmt.Sprintf("alt%d", i)}}
			g.Connect(eg, c, nil)
			g.Connect(c, mm, nil)
		}
		prev = mm
	}
	// sub-process
	if rng.Bool() {
		sp := g.Add(gen.Sub, "", "")
		link(sp, nil)
		is := g.Add(gen.Start, "", sp.ID)
		it := g.Add(gen.Task, "", sp.ID)
		ie := g.Add(gen.End, "", sp.ID)
		g.Connect(is, it, nil)
		g.Connect(it, ie, nil)
	}
	e := g.Add(gen.End, "", "")
	link(e, nil)
	g.Objects = []gen.DataObject{{ID: "do1", Name: "do1", Body: `{"v": 1, "s": "a<b&c"}`}, {ID: "do2", Name: "do2"}}
	graphs := []*gen.Graph{g}
	exec := []bool{true}
	extra := `  <bpmn:signal id="Signal_1" name="sig1"/>
  <bpmn:message id="Message_1" name="msg1"/>
`
	if rng.Bool() {
		// second (waiting) process + collaboration with participants and a message flow
		g2 := gen.NewGraph("waiting")
		s2 := g2.Add(gen.Start, "wstart", "")
		s2.Events = []gen.EventDef{{Type: "message", Ref: "msg1"}}
		t2 := g2.Add(gen.Task, "wtask", "")
		e2 := g2.Add(gen.End, "wend", "")
		g2.Connect(s2, t2, nil)
		g2.Connect(t2, e2, nil)
		graphs = append(graphs, g2)
		exec = append(exec, false)
		extra += `  <bpmn:collaboration id="Collab_1">
    <bpmn:participant id="Part_1" name="main" processRef="rich"/>
    <bpmn:participant id="Part_2" name="other" processRef="waiting"/>
    <bpmn:messageFlow id="MF_1" sourceRef="start" targetRef="wstart"/>
  </bpmn:collaboration>
`
	}
	return gen.XML(graphs, exec, extra)
}

// c15Model runs the model-level checks on definitions d (parsed from src).
func c15Model(v *fw.V, cls string, d *schema.Definitions) *schema.Definitions {
	before := canon.Model(d)
	// ExactId is defined for elements implementing BaseElementInterface: that is the
	// population "elements with an id" is taken over (Definitions itself and diagram-
	// interchange shapes are outside the schema's id lookup by construction)
	ids := canon.IDs(d, func(p any) bool { _, ok := p.(schema.BaseElementInterface); return ok })
	owners := canon.Owners(d)
	// every id retrievable in the original
	for id, typ := range ids {
		el, found := d.FindBy(schema.ExactId(id))
		if !found {
			v.Violate("id-not-found", typ, "element %s (%s) is not retrievable by its id in the parsed model", id, typ)
			return nil
		}
		if be, ok := el.(schema.BaseElementInterface); ok {
			if got, present := be.Id(); !present || *got != id {
				v.Violate("id-wrong-element", typ, "FindBy(ExactId(%s)) returned an element with another id", id)
				return nil
			}
		}
		// ... and it is that element, not one of its embedded base types (an expression found by id must still
		// be the formal expression with its language and text)
		if own, ok := owners[id]; ok && reflect.TypeOf(own) != reflect.TypeOf(el) {
			v.Violate("id-wrong-element", reflect.TypeOf(own).Elem().Name(), "FindBy(ExactId(%s)) returned a %T, the element carrying this id is a %T", id, el, own)
			return nil
		}
	}
	out, err := xml.Marshal(d)
	if err != nil {
		v.Violate("marshal-error", cls, "xml.Marshal failed: %v", err)
		return nil
	}
	after := canon.Model(d)
	if !reflect.DeepEqual(before, after) {
		v.Violate("marshal-mutates-model", cls, "serialising altered the model: %v", canon.Diff(before, after))
		return nil
	}
	d2, err := schema.Parse(out)
	if err != nil {
		v.Violate("reparse-error", cls, "parsing the serialised model failed: %v", err)
		return nil
	}
	re := canon.Model(d2)
	if !reflect.DeepEqual(before, re) {
		diff := canon.Diff(before, re)
		v.Violate("roundtrip-differs", diffClass(diff), "model differs after serialise+parse: %v", diff)
		return nil
	}
	for id, typ := range ids {
		if _, found := d2.FindBy(schema.ExactId(id)); !found {
			v.Violate("id-not-found", typ, "element %s (%s) is not retrievable by its id in the re-parsed model", id, typ)
			return nil
		}
	}
	v.Add("elements-with-id", len(ids))
	v.Add("canonical-lines", len(before))
	return d2
}

// diffClass names the kind of field that differs (structural class for known findings).
func diffClass(diff []string) string {
	if len(diff) == 0 {
		return "unknown"
	}
	l := diff[0]
	l = strings.TrimLeft(l, "+- ")
	if i := strings.Index(l, " = "); i >= 0 {
		l = l[:i]
	}
	// keep the last two path components without indices
	parts := strings.Split(l, "/")
	if len(parts) > 2 {
		parts = parts[len(parts)-2:]
	}
	s := strings.Join(parts, "/")
	var b strings.Builder
	skip := false
	for _, r := range s {
		if r == '[' || r == '{' {
			skip = true
			continue
		}
		if r == ']' || r == '}' {
			skip = false
			continue
		}
		if !skip {
			b.WriteRune(r)
		}
	}
	return b.String()
}

// c15Mutate: one leaf of the parsed model at a time is given another value (booleans flipped, strings
// extended, numbers changed, absent optional attributes set); the changed model must survive
// serialise+parse exactly like the original one. Finds attributes the writer drops, defaults or
// re-derives and the reader fills in differently.
func c15Mutate(c *c15Case, v *fw.V) {
	var src []byte
	if c.File != "" {
		b, err := c15Source(c.File)
		if err != nil {
			v.Inconclusive("read", "%v", err)
			return
		}
		src = b
	} else {
		src = []byte(richXML(c.Seed, c.Rich))
	}
	d0, err := schema.Parse(src)
	if err != nil {
		v.Inconclusive("parse", "%v", err)
		return
	}
	n := len(canon.Slots(d0))
	seenClass := map[string]bool{}
	for i := c.Shard; i < n; i += c.Shards {
		d, err := schema.Parse(src)
		if err != nil {
			v.Inconclusive("parse", "%v", err)
			return
		}
		sl := canon.Slots(d)
		if len(sl) != n {
			v.Inconclusive("slots", "slot enumeration is not deterministic: %d vs %d", len(sl), n)
			return
		}
		s := sl[i]
		if c.File != "@kitchen" && seenClass[s.Class] {
			// one witness per field of a struct type and shard is enough to keep the sweep fast
			continue
		}
		seenClass[s.Class] = true
		orig := canon.Model(d)
		if strings.HasSuffix(s.Path, "TextPayloadField") || strings.HasSuffix(s.Path, "/Body") {
			// character data counts only where the document carries text ("whitespace-only text aside"):
			// the payload slots of elements without text content (and the shadowed payload fields of
			// embedded base types, which no parse ever fills) are not attributes of the model
			carrier := false
			for _, l := range orig {
				if strings.HasPrefix(l, s.Path+" = ") {
					carrier = true
					break
				}
			}
			if !carrier {
				continue
			}
		}
		s.Mutate()
		before := canon.Model(d)
		if reflect.DeepEqual(orig, before) {
			v.Add("mutations-invisible", 1)
			continue
		}
		v.Add("mutations", 1)
		out, err := xml.Marshal(d)
		if err != nil {
			v.Violate("marshal-error", "mutated:"+s.Class, "xml.Marshal failed after changing %s: %v", s.Path, err)
			continue
		}
		if after := canon.Model(d); !reflect.DeepEqual(before, after) {
			v.Violate("marshal-mutates-model", "mutated:"+s.Class, "serialising altered the model after changing %s: %v", s.Path, canon.Diff(before, after))
			continue
		}
		d2, err := schema.Parse(out)
		if err != nil {
			v.Violate("reparse-error", "mutated:"+s.Class, "parsing the serialised model failed after changing %s: %v", s.Path, err)
			continue
		}
		if re := canon.Model(d2); !reflect.DeepEqual(before, re) {
			v.Violate("roundtrip-differs", "mutated:"+s.Class, "after changing %s the model differs after serialise+parse: %v", s.Path, canon.Diff(before, re))
		}
	}
	v.Add("canonical-lines", len(canon.Model(d0)))
	v.Add("slots", n)
}

// c15Neighbours: a model that has been parsed is not changed by parsing (serialising, re-parsing) OTHER documents
// in the same program: documents that state another expression / type language, another namespace, or none of
// them at all. Then the first model still round-trips to itself.
func c15Neighbours(c *c15Case, v *fw.V) {
	variants := func(src string) []string {
		out := []string{src}
		out = append(out, strings.Replace(src, gen.ExprLang, gen.XPathLang, 1))
		out = append(out, strings.Replace(src, gen.XPathLang, gen.ExprLang, 1))
		// the attribute left out altogether (the schema's default applies)
		re := regexp.MustCompile(` expressionLanguage="[^"]*"`)
		out = append(out, re.ReplaceAllString(src, ""))
		out = append(out, strings.Replace(src, `targetNamespace="http://bpmn.io/schema/bpmn"`, `targetNamespace="http://example.org/other" typeLanguage="http://example.org/types"`, 1))
		return out
	}
	base := richXML(c.Seed, c.Rich)
	if c.XPath {
		base = strings.Replace(base, gen.ExprLang, gen.XPathLang, 1)
	}
	first, err := schema.Parse([]byte(base))
	if err != nil {
		v.Inconclusive("parse", "%v", err)
		return
	}
	dump := canon.Model(first)
	others := append(variants(richXML(c.Seed, c.Rich+1)), variants(base)...)
	if k, err := c15Source("@kitchen"); err == nil {
		others = append(others, string(k))
	}
	for i, o := range others {
		d, err := schema.Parse([]byte(o))
		if err != nil {
			v.Inconclusive("parse", "neighbour %d: %v", i, err)
			return
		}
		if out, err := xml.Marshal(d); err == nil {
			schema.Parse(out)
		}
		if now := canon.Model(first); !reflect.DeepEqual(now, dump) {
			v.Violate("parse-alters-other-model", "neighbours", "a model parsed earlier changed when another document (variant %d) was parsed and serialised in the same program: %v", i, canon.Diff(dump, now))
			return
		}
		v.Add("neighbours", 1)
	}
	c15Model(v, "neighbours", first)
}

func c15Run(c *c15Case, env *fw.Env, v *fw.V) {
	switch c.Kind {
	case "neighbours":
		c15Neighbours(c, v)
	case "mutate":
		c15Mutate(c, v)
	case "file":
		src, err := c15Source(c.File)
		if err != nil {
			v.Inconclusive("read", "%v", err)
			return
		}
		d, err := schema.Parse(src)
		if err != nil {
			v.Inconclusive("parse", "bundled file does not parse: %v", err)
			return
		}
		c15Model(v, "file", d)
	case "rich":
		src := richXML(c.Seed, c.Rich)
		d, err := schema.Parse([]byte(src))
		if err != nil {
			v.Inconclusive("parse", "generated definitions do not parse: %v", err)
			return
		}
		c15Model(v, "rich", d)
	case "program":
		g := gen.Lower("p", c.AST)
		if c.XPath {
			g.Lang = "xpath"
		}
		d, _, err := step.Parse(g)
		if err != nil {
			v.Inconclusive("parse", "%v", err)
			return
		}
		d2 := c15Model(v, "program", d)
		if d2 == nil {
			return
		}
		// engine behaves identically on the original and on the re-parsed model
		var r1, r2 *step.Result
		v1 := fw.NewV(fw.Case{})
		fw.Rep(env, 0, func(env *fw.Env) {
			sc := step.Case{G: g, Vars: c.Vars, Order: c.Order, Lenient: hasOr(g)}
			r1 = step.RunStepwise("C15", &sc, env, v1)
		})
		if (v1.Violated() || r1.Aborted) && familyOf(c.AST) == "with-inclusive" {
			// the engine's recorded divergence for nested inclusive gateways (C01's known finding) ends the
			// run early; the model-level round trip above was still decided, only the behavioural comparison is skipped
			v.Add("engine-comparison-skipped:with-inclusive", 1)
			return
		}
		if v1.Violated() || r1.Aborted {
			v.Inconclusive("baseline", "original model diverges from the reference itself (C01's business): %v", v1.Findings)
			return
		}
		v2 := fw.NewV(fw.Case{})
		fw.Rep(env, 1, func(env *fw.Env) {
			sc := step.Case{G: g, Vars: c.Vars, Order: c.Order, Lenient: hasOr(g), Defs: d2}
			r2 = step.RunStepwise("C15", &sc, env, v2)
		})
		if !reflect.DeepEqual(r1.Trace, r2.Trace) || v2.Violated() {
			msg := fmt.Sprintf("original %v, re-parsed %v", r1.Trace, r2.Trace)
			if v2.Violated() {
				msg += fmt.Sprintf("; re-parsed run: %s", v2.Findings[0].Msg)
			}
			v.Violate("behaviour-differs", "program", "engine behaves differently on the re-parsed model: %s", msg)
			return
		}
		v.Add("engine-steps", r1.Steps)
	}
}

func init() {
	fw.Register(&fw.Prop{
		ID:    "C15",
		Cases: c15Cases,
		Run: func(c fw.Case, env *fw.Env) *fw.V {
			v := fw.NewV(c)
			var cc c15Case
			if err := json.Unmarshal(c.Desc, &cc); err != nil {
				v.Inconclusive("descriptor", "%v", err)
				return v
			}
			c15Run(&cc, env, v)
			v.Nontrivial = v.Stats["canonical-lines"] > 10
			return v
		},
		Rule:        "all bundled .bpmn files (testdata, examples, schema/testdata, model/testdata) + generated definitions: C01 programs (formal conditions in expr and XPath) and 'rich' PRNG definitions with every task kind, boundary events, exclusive/inclusive/parallel/event-based gateways with defaults, formal/informal/per-flow-language conditions, timer/signal/message (with operation) definitions, parallel-multiple catch events, throw events, sub-processes, data objects with bodies, olive task definitions/headers/properties/results/data inputs and outputs, collaborations with participants and message flows; checks: canonical reflective dump unchanged by xml.Marshal, identical after Marshal+Parse (text trimmed, nil ≡ empty, expression kind recorded), every id retrievable by FindBy(ExactId) before and after, and for programs the stepwise engine run on the re-parsed model yields the same pending requests after every step; non-trivial = > 10 canonical lines; distinct = descriptor hash; rich documents carry olive:script (every result type), calledDecision and calledElement",
		Assumptions: []string{"canonical form trims text payloads and treats nil and empty as equal (the 'whitespace-only text aside' clause)"},
	})
}
