package props

import (
	"time"
	"encoding/json"
	"fmt"
	"strings"
	"sync"

	bpmn "github.com/olive-io/bpmn/v2"
	"github.com/olive-io/bpmn/v2/pkg/event"

	"verif/internal/drive"
	"verif/internal/fw"
	"verif/internal/gen"
	"verif/internal/perturb"
	"verif/internal/quiesce"
	"verif/internal/step"
)

type c10Case struct {
	Name  string   `json:"name"`
	Host  string   `json:"host"`  // task | sub
	Intr  []bool   `json:"intr"`  // per boundary event: interrupting?
	Hist  []string `json:"hist"`  // a0 (activate host), e1, e2 (deliver), ah (answer host), ax (answer with an error, no handler), as (error + skip handler), ar (error + retry handler: host is requested again)
	Race  bool     `json:"race"`  // last two actions issued concurrently
	Reps  int      `json:"reps"`
	// Prompt: the event for boundary event 1 is delivered by the trace consumer at the very moment the host's
	// task request is received (the earliest moment a caller knows that the activity waits for its answer)
	Prompt bool `json:"prompt,omitempty"`
	// DelaySite/DelayNth: the goroutine making the DelayNth hit of the site pauses 500 us (sequential histories)
	DelaySite string `json:"delay_site,omitempty"`
	DelayNth  int    `json:"delay_nth,omitempty"`
}

func c10Graph(c *c10Case) *gen.Graph {
	g := gen.NewGraph("c10")
	if c.Host == "inner" {
		// the host task, its boundary events and their exception flows all live inside an embedded sub-process
		// (boundary events are declared in the scope of the activity they are attached to)
		s := g.Add(gen.Start, "start", "")
		w := g.Add(gen.Sub, "W", "")
		e := g.Add(gen.End, "end", "")
		g.Connect(s, w, nil)
		g.Connect(w, e, nil)
		ws := g.Add(gen.Start, "ws", "W")
		t0 := g.Add(gen.Task, "t0", "W")
		h := g.Add(gen.Task, "th", "W")
		tn := g.Add(gen.Task, "tn", "W")
		en := g.Add(gen.End, "endn", "W")
		g.Connect(ws, t0, nil)
		g.Connect(t0, h, nil)
		g.Connect(h, tn, nil)
		g.Connect(tn, en, nil)
		for i, intr := range c.Intr {
			b := g.Add(gen.Boundary, fmt.Sprintf("bnd%d", i+1), "W")
			b.Host = h.ID
			b.Intr = intr
			b.Events = []gen.EventDef{{Type: "signal", Ref: fmt.Sprintf("s%d", i+1)}}
			tx := g.Add(gen.Task, fmt.Sprintf("tx%d", i+1), "W")
			tx.Writes = []string{fmt.Sprintf("xw%d", i+1)}
			ex := g.Add(gen.End, fmt.Sprintf("endx%d", i+1), "W")
			g.Connect(b, tx, nil)
			g.Connect(tx, ex, nil)
		}
		return g
	}
	s := g.Add(gen.Start, "start", "")
	t0 := g.Add(gen.Task, "t0", "")
	var h *gen.Node
	if c.Host == "sub" {
		h = g.Add(gen.Sub, "H", "")
		is := g.Add(gen.Start, "hs", "H")
		th := g.Add(gen.Task, "th", "H")
		ie := g.Add(gen.End, "he", "H")
		g.Connect(is, th, nil)
		g.Connect(th, ie, nil)
	} else {
		h = g.Add(gen.Task, "th", "")
	}
	tn := g.Add(gen.Task, "tn", "")
	en := g.Add(gen.End, "endn", "")
	g.Connect(s, t0, nil)
	g.Connect(t0, h, nil)
	g.Connect(h, tn, nil)
	g.Connect(tn, en, nil)
	for i, intr := range c.Intr {
		b := g.Add(gen.Boundary, fmt.Sprintf("bnd%d", i+1), "")
		b.Host = h.ID
		b.Intr = intr
		b.Events = []gen.EventDef{{Type: "signal", Ref: fmt.Sprintf("s%d", i+1)}}
		tx := g.Add(gen.Task, fmt.Sprintf("tx%d", i+1), "")
		tx.Writes = []string{fmt.Sprintf("xw%d", i+1)} // the exception flow stores results like any other
		ex := g.Add(gen.End, fmt.Sprintf("endx%d", i+1), "")
		g.Connect(b, tx, nil)
		g.Connect(tx, ex, nil)
	}
	return g
}

func c10Cases(tier string, seed uint64) []fw.Case {
	var cs []fw.Case
	for _, host := range []string{"task", "sub", "inner"} {
		for _, intr := range [][]bool{{true}, {false}, {true, true}, {true, false}, {false, true}, {false, false}} {
			alpha := []string{"a0", "e1", "ah", "ax", "as", "ar"}
			if len(intr) == 2 {
				alpha = []string{"a0", "e1", "e2", "ah", "ax", "ar"}
			}
			var hs [][]string
			var rec func(p []string, activated, answered, interrupted bool)
			rec = func(p []string, activated, answered, interrupted bool) {
				if len(p) > 0 {
					hs = append(hs, append([]string(nil), p...))
				}
				if len(p) == 4 {
					return
				}
				for _, a := range alpha {
					if a == "a0" && activated {
						continue
					}
					isAns := a == "ah" || a == "ax" || a == "as"
					if (isAns || a == "ar") && (!activated || answered) {
						continue
					}
					if a == "ar" && interrupted {
						continue // retrying an interrupted activity has no defined meaning
					}
					intrNow := interrupted
					if a[0] == 'e' && activated && !answered && intr[int(a[1]-'1')] {
						intrNow = true
					}
					rec(append(p, a), activated || a == "a0", answered || isAns, intrNow)
				}
			}
			rec(nil, false, false, false)
			for _, h := range hs {
				c := c10Case{Host: host, Intr: intr, Hist: h, Reps: 1}
				c.Name = fmt.Sprintf("%s/%v/%s", host, intr, strings.Join(h, ","))
				cs = append(cs, fw.MkCase("sequential", &c))
				// racing variant: host active, last two actions are an event and the answer
				if n := len(h); n >= 3 && h[0] == "a0" && ((h[n-1] == "ah" && h[n-2][0] == 'e') || (h[n-2] == "ah" && h[n-1][0] == 'e')) {
					cc := c
					cc.Race = true
					cc.Reps = 20
					if tier == "thorough" {
						cc.Reps = 200
					}
					cc.Name = "race/" + c.Name
					cs = append(cs, fw.MkCase("race", &cc))
				}
			}
		}
	}
	// the host is requested again (retry answer) and the event arrives during the second activation; the
	// goroutine that relays the first answer is held back at its n-th step
	for _, host := range []string{"task", "sub"} {
		for _, intr := range [][]bool{{true}, {false}} {
			for _, h := range [][]string{{"a0", "ar", "e1"}, {"a0", "ar", "ar", "e1"}, {"a0", "ar", "e1", "ah"}} {
				for _, site := range []string{"act.relay", "task.process", "flow.action"} {
					for nth := 1; nth <= 4; nth++ {
						c := c10Case{Host: host, Intr: intr, Hist: h, Reps: 1, DelaySite: site, DelayNth: nth}
						c.Name = fmt.Sprintf("delay/%s/%v/%s/%s#%d", host, intr, strings.Join(h, ","), site, nth)
						cs = append(cs, fw.MkCase("sequential-delay", &c))
					}
				}
			}
		}
	}
	for _, host := range []string{"task", "sub"} {
		for _, intr := range [][]bool{{true}, {false}, {false, true}} {
			reps := 30
			if tier == "thorough" {
				reps = 300
			}
			c := c10Case{Host: host, Intr: intr, Hist: []string{"a0"}, Prompt: true, Reps: reps}
			c.Name = fmt.Sprintf("prompt/%s/%v", host, intr)
			cs = append(cs, fw.MkCase("prompt", &c))
		}
	}
	return fw.Number(cs)
}

type c10Model struct {
	activated, answered, interrupted bool
	tx                               []int
	tn                               int
	// race: acceptable alternatives
}

func c10Run(c *c10Case, env *fw.Env, v *fw.V) {
	g := c10Graph(c)
	defs, _, err := step.Parse(g)
	if err != nil {
		v.Inconclusive("parse", "%v", err)
		return
	}
	if c.Race {
		perturb.ConfigureSites(map[string]float64{"act.cancel": 0.5, "act.relay": 0.5, "catch.consume": 0.3, "task.process": 0.3}, 300)
	} else {
		perturb.Off()
	}
	if c.DelaySite != "" {
		perturb.Trigger(c.DelaySite, c.DelayNth, 500*time.Microsecond, func() {})
		defer perturb.Trigger("", 0, 0, nil)
	}
	opts := drive.Opts{ExtraSubs: 1}
	if c.Prompt {
		var once sync.Once
		opts.OnTrace = func(in *drive.Inst, e *drive.Ev) {
			if e.Kind == "Task" && e.Node == "th" {
				once.Do(func() {
					in.Go("ConsumeEvent", func() error { _, err := in.Proc.ConsumeEvent(event.NewSignalEvent("s1")); return err })
				})
			}
		}
	}
	in, err := drive.New(env.Label, defs, opts)
	if err != nil {
		v.Violate("new-process-error", "error", "%v", err)
		return
	}
	defer in.Cancel()
	kindOf := func(i int) string {
		if c.Intr[i] {
			return "interrupting"
		}
		return "non-interrupting"
	}
	hostCls := "host=" + c.Host
	fail := func() { v.Log = in.Tail(50) }
	quiet := func(what string) bool {
		q := in.Quiesce(step.Watchdog)
		v.Add("qpoints", 1)
		if !q.Quiescent {
			v.Inconclusive("watchdog", "no quiescent point %s: %v", what, quiesce.Summary(q.Gs))
			return false
		}
		for _, fn := range []string{"Process).ConsumeEvent", "taskTrace).Do"} {
			if gs := quiesce.DriverIn(q.Gs, fn); len(gs) > 0 {
				v.Violate("caller-blocked", fn, "%s: caller of %s still blocked at the quiescent point (at %s)", what, fn, gs[0].TopRepoFrame())
				fail()
				return false
			}
		}
		return true
	}
	count := func(act string) int { return in.Count("Task", act) }
	m := &c10Model{tx: make([]int, len(c.Intr))}
	var hostReq *drive.Req
	deliver := func(i int) { in.Proc.ConsumeEvent(event.NewSignalEvent(fmt.Sprintf("s%d", i+1))) }
	apply := func(a string) {
		switch a {
		case "a0":
			m.activated = true
		case "ah", "ax", "as":
			if !m.interrupted {
				m.tn++
			}
			m.answered = true
		case "ar":
			// retried: the activity stays open, nothing continues
		default:
			i := int(a[1] - '1')
			if m.activated && !m.answered && !m.interrupted {
				m.tx[i]++
				if c.Intr[i] {
					m.interrupted = true
				}
			}
		}
	}
	do := func(a string) {
		switch a {
		case "a0":
			for _, r := range in.Pending() {
				if r.Act == "t0" {
					in.Answer(r, bpmn.DoWithResults(nil))
				}
			}
		case "ah":
			if hostReq != nil {
				in.Answer(hostReq, bpmn.DoWithResults(nil))
			}
		case "ax":
			if hostReq != nil {
				in.Answer(hostReq, bpmn.DoWithErr(fmt.Errorf("boom")))
			}
		case "as", "ar":
			if hostReq != nil {
				ch := make(chan bpmn.ErrHandler, 1)
				if a == "as" {
					ch <- bpmn.ErrHandler{Mode: bpmn.SkipMode}
				} else {
					ch <- bpmn.ErrHandler{Mode: bpmn.RetryMode, Retries: 3}
				}
				in.Answer(hostReq, bpmn.DoWithErrHandle(fmt.Errorf("boom"), ch))
			}
		default:
			deliver(int(a[1] - '1'))
		}
	}
	tag := "start"
	describe := func(prev c10Model, a string) string {
		switch a {
		case "a0":
			return "activate"
		case "ah", "ax", "as":
			if prev.interrupted {
				return "answer-after-interrupt"
			}
			return "answer"
		case "ar":
			if prev.interrupted {
				return "retry-after-interrupt"
			}
			return "retry"
		}
		i := int(a[1] - '1')
		switch {
		case !prev.activated:
			return "event-before-activation"
		case prev.answered:
			return "event-after-answer"
		case prev.interrupted:
			return "event-after-interrupt"
		case prev.tx[i] > 0:
			return "repeated-event"
		}
		return "first-event"
	}
	verify := func(what string) bool {
		hostCls := hostCls + "/" + tag
		for i := range c.Intr {
			got := count(fmt.Sprintf("tx%d", i+1))
			if got != m.tx[i] {
				rule := kindOf(i) + "-exception-count"
				if !m.activated {
					rule = "reaction-before-activation"
				} else if m.answered && !m.interrupted {
					rule = "reaction-after-completion"
				}
				v.Violate(rule, hostCls, "%s: exception path of boundary event %d (%s) requested %d times, expected %d; history %v", what, i+1, kindOf(i), got, m.tx[i], c.Hist)
				fail()
				return false
			}
		}
		if got := count("tn"); got != m.tn {
			rule := "normal-flow-missing"
			if got > m.tn {
				rule = "interrupted-normal-flow-continued"
			}
			v.Violate(rule, hostCls, "%s: normal path requested %d times, expected %d (interrupted=%v answered=%v); history %v", what, got, m.tn, m.interrupted, m.answered, c.Hist)
			fail()
			return false
		}
		return true
	}
	if err := in.Start(); err != nil {
		v.Violate("start-error", "error", "%v", err)
		return
	}
	if !quiet("after start") {
		return
	}
	n := len(c.Hist)
	if c.Prompt {
		// a0, then the event arrives by itself as soon as the host's request is seen
		do("a0")
		apply("a0")
		tag = "prompt-event"
		apply("e1")
		if !quiet("after the host was activated and the event delivered on receipt of its request") {
			return
		}
		if got := count("tx1"); got != 1 {
			v.Violate(kindOf(0)+"-exception-count", hostCls+"/"+tag, "the event was delivered when the host's task request was received (the activity waits for its answer) but the exception path of boundary event 1 (%s) was requested %d times, expected 1", kindOf(0), got)
			fail()
		}
		return
	}
	for i, a := range c.Hist {
		if c.Race && i == n-2 {
			// issue the last two actions concurrently
			var wg sync.WaitGroup
			barrier := make(chan struct{})
			for _, b := range c.Hist[n-2:] {
				wg.Add(1)
				go func(b string) {
					defer wg.Done()
					<-barrier
					do(b)
				}(b)
			}
			close(barrier)
			if !quiet("after the race") {
				return
			}
			wg.Wait()
			// legal outcomes: either order of the two actions
			ev := c.Hist[n-2]
			if ev == "ah" {
				ev = c.Hist[n-1]
			}
			base := *m
			base.tx = append([]int(nil), m.tx...)
			okAny := false
			var outcomes []string
			for _, order := range [][]string{{ev, "ah"}, {"ah", ev}} {
				mm := base
				mm.tx = append([]int(nil), base.tx...)
				m = &mm
				for _, b := range order {
					apply(b)
				}
				match := count("tn") == m.tn
				for j := range c.Intr {
					if count(fmt.Sprintf("tx%d", j+1)) != m.tx[j] {
						match = false
					}
				}
				outcomes = append(outcomes, fmt.Sprintf("tx=%v tn=%d", m.tx, m.tn))
				if match {
					okAny = true
					break
				}
			}
			if !okAny {
				var got []int
				for j := range c.Intr {
					got = append(got, count(fmt.Sprintf("tx%d", j+1)))
				}
				v.Violate("race-outcome", hostCls+"/"+describe(base, ev)+"-"+kindOf(int(ev[1]-'1')), "event %s raced with the host's answer: exception requests %v normal %d; legal outcomes %v", ev, got, count("tn"), outcomes)
				fail()
				return
			}
			break
		}
		do(a)
		prev := *m
		prev.tx = append([]int(nil), m.tx...)
		tag = describe(prev, a)
		apply(a)
		if !quiet(fmt.Sprintf("after step %d (%s)", i, a)) {
			return
		}
		if a == "a0" || (a == "ar" && !prev.interrupted) {
			hostReq = nil
			for _, r := range in.Pending() {
				if r.Act == "th" {
					hostReq = r
				}
			}
			if hostReq == nil {
				v.Violate("host-not-requested", hostCls+"/"+tag, "host activity not requested after %s", tag)
				fail()
				return
			}
		}
		if !verify(fmt.Sprintf("after step %d (%s)", i, a)) {
			return
		}
	}
	// finish: answer everything that is legitimately pending; the instance must complete
	if !m.activated {
		return
	}
	if !m.answered {
		if !m.interrupted && hostReq != nil {
			tag = "answer"
			in.Answer(hostReq, bpmn.DoWithResults(nil))
			apply("ah")
		} else if hostReq != nil {
			// answering an interrupted host afterwards must not revive the normal flow
			tag = "answer-after-interrupt"
			in.Answer(hostReq, bpmn.DoWithResults(nil))
			m.answered = true
		}
		if !quiet("after answering the host at the end") {
			return
		}
		if !verify("after answering the host at the end") {
			return
		}
	}
	for guard := 0; guard < 12; guard++ {
		var r *drive.Req
		left := 0
		for _, p := range in.Pending() {
			if p.Act != "th" {
				r = p
				left++
			}
		}
		if r == nil {
			break
		}
		// an exception path (or the normal one) still waits for an answer: its token is a token of the instance
		// like any other, completion must not have been reported (the paths are finished latest request first,
		// so exception paths regularly outlive the normal one here)
		if k := in.Count("CeaseFlow", ""); k > 0 {
			v.Violate("complete-while-path-pending", hostCls, "%d cease-flow trace(s) while %d request(s) on the exception/normal paths are unanswered (next %s); history %v", k, left, r.Act, c.Hist)
			fail()
			return
		}
		if strings.HasPrefix(r.Act, "tx") {
			// a task on the exception flow answered with its declared result
			w := "xw" + r.Act[2:]
			in.Answer(r, bpmn.DoWithResults(map[string]any{w: 7}))
			if !quiet("while finishing") {
				return
			}
			if got, ok := in.Vars()[w]; !ok || fmt.Sprint(got) != "7" {
				v.Violate("exception-flow-result-lost", hostCls, "task %s on the exception flow was answered with %s=7; the variable reads %v (present %v)", r.Act, w, got, ok)
				fail()
				return
			}
			continue
		}
		in.Answer(r, bpmn.DoWithResults(nil))
		if !quiet("while finishing") {
			return
		}
	}
	// events after completion: no reaction
	for i := range c.Intr {
		deliver(i)
	}
	if !quiet("after late events") {
		return
	}
	tag = "event-after-completion"
	if !verify("after events delivered once the activity had completed") {
		return
	}
	if k := in.Count("CeaseFlow", ""); k != 1 {
		q := in.Quiesce(step.Watchdog)
		var flows []string
		for _, g := range quiesce.Engine(q.Gs) {
			if g.InFunc("flow).Start") {
				flows = append(flows, shortFn(g.TopRepoFrame())+"["+g.State+"]")
			}
		}
		v.Violate("not-complete", hostCls, "every path has ended but %d cease-flow traces (boundary listeners must not keep the instance alive); flow goroutines left: %v", k, flows)
		fail()
	}
	v.Add("traces", len(in.Log(0)))
}

func init() {
	fw.Register(&fw.Prop{
		ID:    "C10",
		Cases: c10Cases,
		Run: func(c fw.Case, env *fw.Env) *fw.V {
			v := fw.NewV(c)
			var cc c10Case
			if err := json.Unmarshal(c.Desc, &cc); err != nil {
				v.Inconclusive("descriptor", "%v", err)
				return v
			}
			for i := 0; i < cc.Reps && !v.Violated(); i++ {
				fw.Rep(env, i, func(env *fw.Env) { c10Run(&cc, env, v) })
				v.Add("runs", 1)
			}
			v.Nontrivial = true
			return v
		},
		Rule:        "host activity = task or sub-process x 1..2 boundary events x each interrupting or not x all histories of length <= 4 over {activate host, deliver event 1/2, answer host normally / with an error and no handler / with an error and a skip handler / with an error and a retry handler (host requested again, boundary events stay armed)} (incl. events before activation and repeated events); after every step exception-path and normal-path request counts are compared with the boundary-event reference; racing variants issue the event and the answer concurrently and accept exactly the outcomes of either order; finally every path is ended, late events delivered and completion demanded; all cases non-trivial; distinct = descriptor hash; while the paths are finished no cease-flow trace may exist as long as a request on an exception or normal path is unanswered",
		Exhaustive:  func(string) bool { return true },
		Assumptions: []string{"events delivered through Process.ConsumeEvent", "one token at the host activity"},
	})
}
