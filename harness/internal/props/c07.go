package props

import (
	"context"
	"encoding/json"
	"fmt"
	"sort"
	"strings"
	"sync/atomic"
	"time"

	bpmn "github.com/olive-io/bpmn/v2"
	"github.com/olive-io/bpmn/v2/pkg/clock"
	"github.com/olive-io/bpmn/v2/pkg/event"
	"github.com/olive-io/bpmn/v2/pkg/tracing"
	"github.com/olive-io/bpmn/schema"

	"verif/internal/drive"
	"verif/internal/fw"
	"verif/internal/gen"
	"verif/internal/perturb"
	"verif/internal/quiesce"
	"verif/internal/step"
)

type c07Case struct {
	Name  string  `json:"name"`
	Prog  string  `json:"prog"`
	K     int     `json:"k"` // cancel on receipt of the k-th trace (0 = before start); beyond the run's length = at the resting state
	Hooks float64 `json:"hooks"`
	// cancellation at a code point instead of a trace count: the goroutine making the Nth hit of
	// instrumentation site Site cancels the context itself and then pauses PauseUs microseconds
	Site    string `json:"site,omitempty"`
	Nth     int    `json:"nth,omitempty"`
	PauseUs int    `json:"pause_us,omitempty"`
	// process-set cases (Prog == "set"): C18's definitions
	SetExecs []string `json:"set_execs,omitempty"`
	SetLink  string   `json:"set_link,omitempty"`
	SetHold  bool     `json:"set_hold,omitempty"` // the last task of every process is never answered
}

// c07Prog: graph + which tasks the driver answers + events/clock reactions
type c07Prog struct {
	G      *gen.Graph
	Answer map[string]bool // tasks to answer ("*" = all)
	Signal string          // signal to deliver on ActiveListening ("" = none)
	Timer  bool            // uses the mock clock (never advanced)
	// ErrAns: how a task is answered with an error: "pending" = DoWithErrHandle whose decision never comes,
	// "retry" = handler answers retry(1) each time, "err" = DoWithErr (no handler)
	ErrAns map[string]string
	// Advance: on every listening trace the mock clock is moved forward by this much (timer fires)
	Advance time.Duration
}

func c07Progs() map[string]*c07Prog {
	out := map[string]*c07Prog{}
	all := map[string]bool{"*": true}
	// seq
	{
		g := gen.Lower("p", gen.Seq(gen.T(), gen.T()))
		out["seq"] = &c07Prog{G: g, Answer: all}
	}
	// pending task
	{
		g := gen.Lower("p", gen.Seq(gen.T(), gen.T()))
		out["pending-task"] = &c07Prog{G: g, Answer: map[string]bool{"t1": true}}
	}
	// half-full parallel join
	{
		g := gen.Lower("p", gen.Seq(gen.T(), &gen.Block{Kind: "and", Default: -1, Kids: []*gen.Block{gen.T(), gen.T()}}, gen.T()))
		out["and-half"] = &c07Prog{G: g, Answer: map[string]bool{"t1": true, "t2": true}}
	}
	// half-full inclusive join
	{
		g := gen.Lower("p", gen.Seq(gen.T(), &gen.Block{Kind: "or", Default: -1, Kids: []*gen.Block{gen.T(), gen.T()},
			Conds: []*gen.Cond{{Kind: "const", Lit: true}, {Kind: "const", Lit: true}}, Ends: []bool{false, false}}, gen.T()))
		out["or-half"] = &c07Prog{G: g, Answer: map[string]bool{"t1": true, "t2": true}}
	}
	// exclusive gateway + loop (longer run to completion)
	{
		g := gen.Lower("p", gen.Seq(gen.T(), &gen.Block{Kind: "loop", Default: -1, Var: "cnt", Bound: 2, Kids: []*gen.Block{
			{Kind: "xor", Default: 1, Kids: []*gen.Block{gen.T(), gen.T()}, Conds: []*gen.Cond{{Kind: "const", Lit: false}, nil}, Ends: []bool{false, false}}}}))
		out["xor-loop"] = &c07Prog{G: g, Answer: all}
	}
	// conditions that cannot be evaluated (an error trace, the flow counts as not taken), at an exclusive and at
	// an inclusive gateway: whatever the expression engine does to produce that error ends with the instance
	{
		g := gen.Lower("p", gen.Seq(gen.T(), &gen.Block{Kind: "xor", Default: 2, Kids: []*gen.Block{gen.T(), gen.T(), gen.T()},
			Conds: []*gen.Cond{{Kind: "fail"}, {Kind: "fail"}, nil}, Ends: []bool{false, false, false}}, gen.T()))
		out["xor-cond-fails"] = &c07Prog{G: g, Answer: all}
		g2 := gen.Lower("p", gen.Seq(gen.T(), &gen.Block{Kind: "or", Default: -1, Kids: []*gen.Block{gen.T(), gen.T(), gen.T()},
			Conds: []*gen.Cond{{Kind: "fail"}, {Kind: "const", Lit: true}, {Kind: "fail"}}, Ends: []bool{false, false, false}}, gen.T()))
		out["or-cond-fails"] = &c07Prog{G: g2, Answer: all}
	}
	// listening catch event
	{
		g := gen.NewGraph("p")
		s := g.Add(gen.Start, "start", "")
		c := g.Add(gen.Catch, "c1", "")
		c.Events = []gen.EventDef{{Type: "signal", Ref: "sig1"}}
		t := g.Add(gen.Task, "t1", "")
		e := g.Add(gen.End, "end", "")
		g.Connect(s, c, nil)
		g.Connect(c, t, nil)
		g.Connect(t, e, nil)
		out["catch-listening"] = &c07Prog{G: g, Answer: all}
		out["catch-fired"] = &c07Prog{G: g, Answer: all, Signal: "sig1"}
	}
	// event-based gateway armed
	{
		g := gen.NewGraph("p")
		s := g.Add(gen.Start, "start", "")
		eg := g.Add(gen.EventGw, "eg", "")
		g.Connect(s, eg, nil)
		for i, ref := range []string{"sigA", "sigB"} {
			c := g.Add(gen.Catch, fmt.Sprintf("c%d", i), "")
			c.Events = []gen.EventDef{{Type: "signal", Ref: ref}}
			t := g.Add(gen.Task, fmt.Sprintf("t%d", i), "")
			e := g.Add(gen.End, fmt.Sprintf("e%d", i), "")
			g.Connect(eg, c, nil)
			g.Connect(c, t, nil)
			g.Connect(t, e, nil)
		}
		out["eventgw-armed"] = &c07Prog{G: g, Answer: all}
	}
	// timer armed (mock clock never advanced)
	{
		g := gen.NewGraph("p")
		s := g.Add(gen.Start, "start", "")
		c := g.Add(gen.Catch, "c1", "")
		c.Events = []gen.EventDef{{Type: "timer", Time: "duration:PT1M"}}
		e := g.Add(gen.End, "end", "")
		g.Connect(s, c, nil)
		g.Connect(c, e, nil)
		out["timer-armed"] = &c07Prog{G: g, Answer: all, Timer: true}
	}
	// sub-process running / nested
	{
		g := gen.Lower("p", gen.Seq(gen.T(), &gen.Block{Kind: "sub", Default: -1, Kids: []*gen.Block{gen.Seq(gen.T(), gen.T())}}, gen.T()))
		out["sub-running"] = &c07Prog{G: g, Answer: map[string]bool{"t1": true, "t2": true}}
		out["sub-complete"] = &c07Prog{G: g, Answer: all}
		g2 := gen.Lower("p", gen.Seq(gen.T(), &gen.Block{Kind: "sub", Default: -1, Kids: []*gen.Block{
			{Kind: "sub", Default: -1, Kids: []*gen.Block{gen.T()}}}}, gen.T()))
		out["sub-nested"] = &c07Prog{G: g2, Answer: map[string]bool{"t1": true}}
	}
	// boundary listener armed
	{
		g := gen.NewGraph("p")
		s := g.Add(gen.Start, "start", "")
		t := g.Add(gen.Task, "host", "")
		e := g.Add(gen.End, "end", "")
		g.Connect(s, t, nil)
		g.Connect(t, e, nil)
		b := g.Add(gen.Boundary, "bnd", "")
		b.Host = "host"
		b.Intr = true
		b.Events = []gen.EventDef{{Type: "signal", Ref: "sigB"}}
		tx := g.Add(gen.Task, "tx", "")
		ex := g.Add(gen.End, "endx", "")
		g.Connect(b, tx, nil)
		g.Connect(tx, ex, nil)
		out["boundary-armed"] = &c07Prog{G: g, Answer: map[string]bool{}}
	}
	// error answers: decision of the error handler still pending / retry loop / plain error
	{
		g := gen.Lower("p", gen.Seq(gen.T(), gen.T()))
		out["errhandler-pending"] = &c07Prog{G: g, Answer: all, ErrAns: map[string]string{"t1": "pending"}}
		out["errhandler-retry"] = &c07Prog{G: g, Answer: all, ErrAns: map[string]string{"t1": "retry", "t2": "retry"}}
		out["err-plain"] = &c07Prog{G: g, Answer: all, ErrAns: map[string]string{"t1": "err"}}
		g2 := gen.Lower("p", gen.Seq(gen.T(), &gen.Block{Kind: "and", Default: -1, Kids: []*gen.Block{gen.T(), gen.T()}}, gen.T()))
		out["errhandler-pending-parallel"] = &c07Prog{G: g2, Answer: all, ErrAns: map[string]string{"t2": "pending", "t3": "retry"}}
	}
	// two start events
	{
		g := gen.NewGraph("p")
		for i := 1; i <= 2; i++ {
			s := g.Add(gen.Start, fmt.Sprintf("s%d", i), "")
			t := g.Add(gen.Task, fmt.Sprintf("a%d", i), "")
			e := g.Add(gen.End, fmt.Sprintf("e%d", i), "")
			g.Connect(s, t, nil)
			g.Connect(t, e, nil)
		}
		out["two-starts"] = &c07Prog{G: g, Answer: map[string]bool{"a1": true}}
	}
	// boundary listener fired (exception path running), interrupting and not
	for _, intr := range []bool{true, false} {
		g := gen.NewGraph("p")
		s := g.Add(gen.Start, "start", "")
		t := g.Add(gen.Task, "host", "")
		e := g.Add(gen.End, "end", "")
		g.Connect(s, t, nil)
		g.Connect(t, e, nil)
		b := g.Add(gen.Boundary, "bnd", "")
		b.Host = "host"
		b.Intr = intr
		b.Events = []gen.EventDef{{Type: "signal", Ref: "sigB"}}
		tx := g.Add(gen.Task, "tx", "")
		ex := g.Add(gen.End, "endx", "")
		g.Connect(b, tx, nil)
		g.Connect(tx, ex, nil)
		name := "boundary-fired"
		if !intr {
			name = "boundary-fired-nonintr"
		}
		out[name] = &c07Prog{G: g, Answer: map[string]bool{}, Signal: "sigB"}
		out[name+"-answered"] = &c07Prog{G: g, Answer: all, Signal: "sigB"}
	}
	// timers that fire: the mock clock is advanced whenever a catch event starts listening
	for _, def := range []string{"duration:PT1M", "cycle:R3/PT1M"} {
		g := gen.NewGraph("p")
		s := g.Add(gen.Start, "start", "")
		c := g.Add(gen.Catch, "c1", "")
		c.Events = []gen.EventDef{{Type: "timer", Time: def}}
		t := g.Add(gen.Task, "t1", "")
		c2 := g.Add(gen.Catch, "c2", "")
		c2.Events = []gen.EventDef{{Type: "timer", Time: def}}
		e := g.Add(gen.End, "end", "")
		g.Connect(s, c, nil)
		g.Connect(c, t, nil)
		g.Connect(t, c2, nil)
		g.Connect(c2, e, nil)
		name := "timer-fired-" + def[:strings.IndexByte(def, ':')]
		out[name] = &c07Prog{G: g, Answer: all, Timer: true, Advance: time.Minute}
	}
	// throw event waking a catch event on a parallel branch
	{
		g := gen.NewGraph("p")
		s := g.Add(gen.Start, "start", "")
		f := g.Add(gen.And, "fork", "")
		j := g.Add(gen.And, "join", "")
		g.Connect(s, f, nil)
		c := g.Add(gen.Catch, "c1", "")
		c.Events = []gen.EventDef{{Type: "signal", Ref: "sigT"}}
		t1 := g.Add(gen.Task, "t1", "")
		th := g.Add(gen.Throw, "th", "")
		th.Events = []gen.EventDef{{Type: "signal", Ref: "sigT"}}
		t2 := g.Add(gen.Task, "t2", "")
		e := g.Add(gen.End, "end", "")
		g.Connect(f, c, nil)
		g.Connect(c, j, nil)
		g.Connect(f, t1, nil)
		g.Connect(t1, th, nil)
		g.Connect(th, j, nil)
		g.Connect(j, t2, nil)
		g.Connect(t2, e, nil)
		out["throw-catch"] = &c07Prog{G: g, Answer: all}
	}
	// many tokens inside one sub-process level (more cancellation traces than a subscription buffer holds)
	{
		wide := &gen.Block{Kind: "and", Default: -1, Kids: []*gen.Block{gen.T(), gen.T(), gen.T(), gen.T(), gen.T(), gen.T()}}
		g := gen.Lower("p", gen.Seq(gen.T(), &gen.Block{Kind: "sub", Default: -1, Kids: []*gen.Block{wide}}, gen.T()))
		out["sub-wide"] = &c07Prog{G: g, Answer: map[string]bool{"t1": true}}
		wide2 := &gen.Block{Kind: "and", Default: -1, Kids: []*gen.Block{gen.T(), gen.T(), gen.T(), gen.T(), gen.T(), gen.T()}}
		g2 := gen.Lower("p", gen.Seq(gen.T(), &gen.Block{Kind: "sub", Default: -1, Kids: []*gen.Block{
			{Kind: "sub", Default: -1, Kids: []*gen.Block{wide2}}}}, gen.T()))
		out["sub-nested-wide"] = &c07Prog{G: g2, Answer: map[string]bool{"t1": true}}
	}
	// inclusive fork with a branch ending on its own and a conditional-flow task
	{
		g := gen.Lower("p", gen.Seq(gen.T(), &gen.Block{Kind: "or", Default: -1, Kids: []*gen.Block{gen.Seq(gen.T(), gen.T()), gen.T(), gen.T()},
			Conds: []*gen.Cond{{Kind: "const", Lit: true}, {Kind: "const", Lit: true}, {Kind: "const", Lit: false}}, Ends: []bool{false, true, false}}, gen.T()))
		out["or-own-end"] = &c07Prog{G: g, Answer: all}
	}
	return out
}

func c07Names() []string {
	var ns []string
	for n := range c07Progs() {
		ns = append(ns, n)
	}
	sort.Strings(ns)
	return ns
}

func c07Cases(tier string, seed uint64) []fw.Case {
	var cs []fw.Case
	rng := fw.NewRng(seed, "C07")
	for _, name := range c07Names() {
		maxK := 70
		stride := 3
		if tier == "thorough" {
			stride = 1
		}
		off := rng.Intn(stride)
		for _, hooks := range []float64{0, 0.5} {
			for k := 0; k <= maxK; k++ {
				if k > 3 && (k+off)%stride != 0 {
					continue
				}
				reps := 1
				if tier == "thorough" && hooks > 0 {
					reps = 3
				}
				for r := 0; r < reps; r++ {
					c := c07Case{Name: fmt.Sprintf("%s/k%d/h%v/r%d", name, k, hooks, r), Prog: name, K: k, Hooks: hooks}
					cs = append(cs, fw.MkCase("cancel", &c))
				}
			}
		}
	}
	stride2 := 7
	if tier == "thorough" {
		stride2 = 2
	}
	off2 := rng.Intn(stride2)
	// cancellation at code points (between the engine's critical sections)
	nths := []int{1, 2, 4}
	if tier == "thorough" {
		nths = []int{1, 2, 3, 4, 5, 6, 8, 12}
	}
	for _, name := range c07Names() {
		for _, site := range perturb.Sites {
			if strings.HasPrefix(site, "pset.") {
				continue
			}
			for _, nth := range nths {
				for _, pause := range []int{0, 300} {
					c := c07Case{Name: fmt.Sprintf("%s/%s#%d/p%d", name, site, nth, pause), Prog: name, K: -1, Site: site, Nth: nth, PauseUs: pause}
					cs = append(cs, fw.MkCase("cancel-at-site", &c))
				}
			}
		}
	}
	// process sets: cancellation by trace count and at code points
	for _, link := range []string{"none", "both", "start2", "catch2", "waitcatch"} {
		for ei, execs := range [][]string{{"task"}, {"fork", "task"}, {"task", "trivial", "fork"}} {
			for _, hold := range []bool{false, true} {
				base := c07Case{Prog: "set", SetExecs: execs, SetLink: link, SetHold: hold}
				for k := 0; k <= 90; k++ {
					if k > 3 && (k+off2+ei)%stride2 != 0 {
						continue
					}
					for _, hooks := range []float64{0, 0.5} {
						c := base
						c.K, c.Hooks = k, hooks
						c.Name = fmt.Sprintf("set/%v/%s/hold%v/k%d/h%v", execs, link, hold, k, hooks)
						cs = append(cs, fw.MkCase("cancel-set", &c))
					}
				}
				for _, site := range perturb.Sites {
					if tier != "thorough" && !(strings.HasPrefix(site, "pset.") || strings.HasPrefix(site, "process.") || strings.HasPrefix(site, "relay.") || strings.HasPrefix(site, "tracer.") || strings.HasPrefix(site, "catch.")) {
						continue
					}
					for _, nth := range nths {
						c := base
						c.K, c.Site, c.Nth, c.PauseUs = -1, site, nth, 300
						c.Name = fmt.Sprintf("set/%v/%s/hold%v/%s#%d", execs, link, hold, site, nth)
						cs = append(cs, fw.MkCase("cancel-set-at-site", &c))
					}
				}
			}
		}
	}
	return fw.Number(cs)
}

// c07RunSet: a process set (C18's shapes and message-flow links) is started, every task is answered as it is
// requested (or the tasks *_t1 / *_t are held back), the context is cancelled on receipt of the k-th trace of
// the set's tracer or by the goroutine making the n-th hit of an instrumentation site. By the quiescent point
// after cancel(): no engine goroutine of the case is left, the set's tracer is done and its subscriber
// channel closed, set waiters and StartAll have returned.
func c07RunSet(c *c07Case, env *fw.Env, v *fw.V) {
	b := c18Definitions(&c18Case{Execs: c.SetExecs, Link: c.SetLink})
	defs, err := schema.Parse([]byte(gen.XML(b.graphs, b.exec, b.extra)))
	if err != nil {
		v.Inconclusive("parse", "%v", err)
		return
	}
	if c.Hooks > 0 {
		perturb.Configure(c.Hooks, 200)
	} else {
		perturb.Off()
	}
	ctx, cancel := context.WithCancel(context.Background())
	defer cancel()
	var cancelled atomic.Bool
	var count atomic.Int64
	doCancel := func() {
		if cancelled.CompareAndSwap(false, true) {
			cancel()
		}
	}
	fired := func() bool { return false }
	if c.Site != "" {
		fired = perturb.Trigger(c.Site, c.Nth, time.Duration(c.PauseUs)*time.Microsecond, doCancel)
		defer perturb.Trigger("", 0, 0, nil)
	}
	engine := bpmn.NewEngine(bpmn.WithEngineContext(ctx))
	ps, err := engine.NewProcessSet(defs, bpmn.WithContext(ctx))
	if err != nil {
		if cancelled.Load() {
			return // cancelled while the set was being built: nothing was started
		}
		v.Violate("new-process-set-error", "error", "%v", err)
		return
	}
	ch := ps.Tracer().SubscribeChannel(make(chan tracing.ITrace, 8192))
	var closed atomic.Bool
	go func() {
		for tr := range ch {
			n := count.Add(1)
			if int(n) == c.K {
				doCancel()
			}
			e := drive.Classify(tr)
			if tt, ok := e.Raw.(bpmn.TaskTrace); ok {
				if c.SetHold && (strings.HasSuffix(e.Node, "_t1") || strings.HasSuffix(e.Node, "_t")) {
					continue
				}
				tt.Do(bpmn.DoWithResults(nil))
			}
		}
		closed.Store(true)
	}()
	type waiter struct{ done atomic.Bool }
	w1, w2 := &waiter{}, &waiter{}
	go func() { ps.WaitUntilComplete(ctx); w1.done.Store(true) }()
	go func() { ps.WaitUntilComplete(context.Background()); w2.done.Store(true) }()
	if c.K == 0 {
		doCancel()
	}
	var started atomic.Bool
	go func() { ps.StartAll(ctx); started.Store(true) }()
	quiet := func() (quiesce.Result, bool) {
		q := quiesce.Wait(env.Label, 5*time.Second, func() bool { return len(ch) == 0 })
		return q, q.Quiescent
	}
	q, ok := quiet()
	if !cancelled.Load() {
		if !ok {
			v.Inconclusive("watchdog", "no quiescent point before cancellation: %v", quiesce.Summary(q.Gs))
			return
		}
		doCancel()
		v.Add("cancel-at-rest", 1)
	} else {
		v.Add("cancel-mid-run", 1)
	}
	if fired() {
		v.Add("cancel-at-site", 1)
		v.AddSig(fmt.Sprintf("site:%s#%d", c.Site, c.Nth))
	}
	v.AddSig(fmt.Sprintf("set-%s@%d", c.SetLink, count.Load()))
	q, ok = quiet()
	if !ok {
		v.Inconclusive("watchdog", "no quiescent point after cancellation: %v", quiesce.Summary(q.Gs))
		return
	}
	v.Add("qpoints", 1)
	cls := "set-link=" + c.SetLink
	leaks := map[string]int{}
	for _, g := range quiesce.Engine(q.Gs) {
		if g.Blocked() {
			leaks[shortFn(g.TopRepoFrame())+"["+g.State+"]"]++
		}
	}
	for site, n := range leaks {
		v.Violate("goroutine-leak", site, "%d engine goroutine(s) still blocked at %s after cancellation (process set %v link %s hold %v, cancelled after %d traces)", n, site, c.SetExecs, c.SetLink, c.SetHold, count.Load())
	}
	select {
	case <-ps.Tracer().Done():
	default:
		v.Violate("tracer-not-done", cls, "the set's Tracer().Done() is not closed at the quiescent point after cancellation")
	}
	if !closed.Load() {
		v.Violate("subscriber-not-closed", cls, "the subscriber channel of the set's tracer is not closed at the quiescent point after cancellation")
	}
	if !w1.done.Load() {
		v.Violate("waiter-blocked", "set-same-context", "ProcessSet.WaitUntilComplete(cancelled context) still blocked after cancellation")
	}
	if !w2.done.Load() {
		v.Violate("waiter-blocked", "set-other-context", "ProcessSet.WaitUntilComplete(background context) still blocked after the set's context was cancelled")
	}
	if !started.Load() {
		v.Violate("caller-blocked", "ProcessSet).StartAll", "ProcessSet.StartAll still blocked after cancellation")
	}
	v.Add("traces", int(count.Load()))
}

func c07Run(c *c07Case, env *fw.Env, v *fw.V) {
	if c.Prog == "set" {
		c07RunSet(c, env, v)
		return
	}
	p := c07Progs()[c.Prog]
	defs, _, err := step.Parse(p.G)
	if err != nil {
		v.Inconclusive("parse", "%v", err)
		return
	}
	if c.Hooks > 0 {
		perturb.Configure(c.Hooks, 200)
	} else {
		perturb.Off()
	}
	var count atomic.Int64
	var cancelSeq atomic.Int64
	var cancelAt atomic.Int64
	var lateTasks atomic.Int64   // task requests received after cancel() returned with a live context
	var lateTotal atomic.Int64   // task requests received after cancel() returned
	var in *drive.Inst
	// the instance's context hangs below a parent context of the case, so that a code point reached
	// while NewProcess is still building the instance can cancel it as well
	var inP atomic.Pointer[drive.Inst]
	pctx, pcancel := context.WithCancel(context.Background())
	defer pcancel()
	doCancel := func() {
		if cancelAt.CompareAndSwap(0, 1) {
			i := inP.Load()
			if i != nil {
				i.Note("cancel.call", "")
			}
			pcancel()
			cancelSeq.Store(drive.Seq.Add(1))
			if i != nil {
				i.Note("cancel.return", "")
			}
		}
	}
	fired := func() bool { return false }
	if c.Site != "" {
		fired = perturb.Trigger(c.Site, c.Nth, time.Duration(c.PauseUs)*time.Microsecond, func() { doCancel() })
		defer perturb.Trigger("", 0, 0, nil)
	}
	opts := drive.Opts{ExtraSubs: 1, Ctx: pctx}
	if c.K%3 == 1 {
		// the engine's own context (WithEngineContext) outlives the instance's: it is cancelled only when the case
		// is over, after the census - whatever the engine starts for an instance must end with the instance
		ectx, ecancel := context.WithCancel(context.Background())
		defer ecancel()
		opts.EngineCtx = ectx
	}
	if p.Timer {
		opts.Mock = clock.NewMock()
	}
	opts.OnTrace = func(in *drive.Inst, e *drive.Ev) {
		n := count.Add(1)
		if int(n) == c.K {
			doCancel()
		}
		switch e.Kind {
		case "Task":
			if cs := cancelSeq.Load(); cs != 0 && e.Seq > cs {
				lateTotal.Add(1)
				if tt, ok := e.Raw.(bpmn.TaskTrace); ok && tt.Context() != nil && tt.Context().Err() == nil {
					lateTasks.Add(1)
				}
			}
			if p.Answer["*"] || p.Answer[e.Node] {
				for _, r := range in.Pending() {
					if r.N != e.Req {
						continue
					}
					switch p.ErrAns[e.Node] {
					case "pending":
						in.Answer(r, bpmn.DoWithErrHandle(fmt.Errorf("boom"), make(chan bpmn.ErrHandler)))
					case "retry":
						ch := make(chan bpmn.ErrHandler, 1)
						ch <- bpmn.ErrHandler{Mode: bpmn.RetryMode, Retries: 1}
						in.Answer(r, bpmn.DoWithErrHandle(fmt.Errorf("boom"), ch))
					case "err":
						in.Answer(r, bpmn.DoWithErr(fmt.Errorf("boom")))
					default:
						in.Answer(r, bpmn.DoWithResults(map[string]any{"cnt": int(n)}))
					}
				}
			}
		case "Listening":
			if p.Advance > 0 && opts.Mock != nil {
				opts.Mock.Add(p.Advance)
			}
			if p.Signal != "" {
				go in.Proc.ConsumeEvent(event.NewSignalEvent(p.Signal))
			}
		}
	}
	in, err = drive.New(env.Label, defs, opts)
	if err != nil {
		v.Violate("new-process-error", "error", "%v", err)
		return
	}
	inP.Store(in)
	w := in.Wait(in.Ctx)
	w2 := in.Wait(context.Background())
	if c.K == 0 {
		doCancel()
	}
	call := in.StartAsync()
	q := in.Quiesce(5 * time.Second)
	if cancelAt.Load() == 0 {
		// resting state (or completion) reached before the k-th trace: cancel now
		if !q.Quiescent {
			v.Inconclusive("watchdog", "no quiescent point before cancellation: %v", quiesce.Summary(q.Gs))
			return
		}
		doCancel()
		v.Add("cancel-at-rest", 1)
	} else {
		v.Add("cancel-mid-run", 1)
	}
	if fired() {
		v.Add("cancel-at-site", 1)
		v.AddSig(fmt.Sprintf("site:%s#%d", c.Site, c.Nth))
	}
	v.AddSig(fmt.Sprintf("%s@%d", c.Prog, count.Load()))
	// after cancellation: by the quiescent point everything must be gone
	q = in.Quiesce(4 * time.Second)
	if !q.Quiescent {
		// spinning? sample the non-blocked engine goroutines over a window with a silent trace stream
		before := count.Load()
		hot := map[string]int{}
		samples := 40
		for i := 0; i < samples; i++ {
			time.Sleep(5 * time.Millisecond)
			snap := quiesce.Take()
			for _, g := range quiesce.Engine(snap.Case(env.Label)) {
				if !g.Blocked() {
					hot[g.TopRepoFrame()]++
				}
			}
		}
		silent := count.Load() == before
		spun := false
		for fn, n := range hot {
			if n >= samples*8/10 && silent && fn != "" {
				v.Violate("spinning", shortFn(fn), "after cancellation %s stayed runnable in %d of %d samples over 200ms while the trace stream was silent", fn, n, samples)
				spun = true
			}
		}
		if !spun {
			v.Inconclusive("watchdog", "no quiescent point after cancellation: %v", quiesce.Summary(q.Gs))
			return
		}
		snap := quiesce.Take()
		q.Gs = snap.Case(env.Label)
	}
	v.Add("qpoints", 1)
	// (a) engine goroutines left
	leaks := map[string]int{}
	for _, g := range quiesce.Engine(q.Gs) {
		if g.Blocked() {
			leaks[shortFn(g.TopRepoFrame())+"["+g.State+"]"]++
		}
	}
	for site, n := range leaks {
		v.Violate("goroutine-leak", site, "%d engine goroutine(s) still blocked at %s after cancellation (program %s, cancelled after %d traces)", n, site, c.Prog, count.Load())
	}
	// (b) tracer terminated and subscriber channels closed
	select {
	case <-in.Proc.Tracer().Done():
	default:
		v.Violate("tracer-not-done", c.Prog, "Tracer().Done() not closed at the quiescent point after cancellation")
	}
	for i := range in.Subs {
		if !in.Closed(i) {
			v.Violate("subscriber-not-closed", c.Prog, "subscriber channel %d not closed at the quiescent point after cancellation", i)
			break
		}
	}
	// (c) waiters
	if ret, _, _ := in.WaiterState(w); !ret {
		v.Violate("waiter-blocked", "same-context", "WaitUntilComplete(cancelled context) still blocked after cancellation")
	}
	if ret, _, _ := in.WaiterState(w2); !ret {
		v.Violate("waiter-blocked", "other-context", "WaitUntilComplete(background context) still blocked after the instance's context was cancelled")
	}
	if d, _ := call.Done(); !d {
		v.Violate("caller-blocked", "Process).StartAll", "StartAll still blocked after cancellation")
	}
	// (e) task requests after cancel() returned must carry a cancelled context... and none at all once quiescent
	if n := lateTasks.Load(); n > 0 {
		v.Violate("task-after-cancel-live-context", c.Prog, "%d task request(s) received after cancel() returned carried a context that is not cancelled", n)
	}
	// (f) answers arriving after the cancellation: every request still open is answered three times in a row;
	// none of the calls may block its caller
	var lateDos []*drive.Call
	for _, r := range in.Reqs() {
		if r.Answered {
			continue
		}
		tr := r.Trace
		lateDos = append(lateDos, in.Go("LateDo", func() error {
			for k := 0; k < 3; k++ {
				tr.Do(bpmn.DoWithResults(map[string]any{"late": k}))
			}
			return nil
		}))
	}
	if len(lateDos) > 0 {
		q = in.Quiesce(4 * time.Second)
		for _, cl := range lateDos {
			if d, _ := cl.Done(); !d && q.Quiescent {
				site := ""
				if gs := quiesce.DriverIn(q.Gs, "taskTrace).Do"); len(gs) > 0 {
					site = gs[0].TopRepoFrame()
				}
				v.Violate("late-do-blocked", c.Prog, "a Do issued after the cancellation on a request that was still open never returned (three calls in a row; blocked at %s)", site)
				break
			}
		}
		v.Add("late-dos", len(lateDos))
	}
	v.Add("late-task-requests", int(lateTotal.Load()))
	v.Add("traces", int(count.Load()))
	if v.Violated() {
		v.Log = in.Tail(30)
	}
}

func shortFn(fn string) string {
	if i := strings.LastIndexByte(fn, '/'); i >= 0 {
		fn = fn[i+1:]
	}
	return fn
}

func init() {
	fw.Register(&fw.Prop{
		ID:            "C07",
		Cases:         c07Cases,
		OnePerProcess: true,
		Run: func(c fw.Case, env *fw.Env) *fw.V {
			v := fw.NewV(c)
			var cc c07Case
			if err := json.Unmarshal(c.Desc, &cc); err != nil {
				v.Inconclusive("descriptor", "%v", err)
				return v
			}
			c07Run(&cc, env, v)
			v.Nontrivial = true
			return v
		},
		Rule:        "corpus of programs covering every node kind (pending task, half-full parallel / inclusive join, exclusive gateway in a loop, listening and fired catch event, armed event-based gateway, armed mock-clock timer, running / completed / nested sub-process, armed boundary listener, two start events, error answers whose handler decision is pending / retries / plain) x cancellation point k = number of traces received before cancel() (0..70 strided in quick, all in thorough; beyond the run's length = at the resting state) x hooks off / 0.5; the same cancellation points indexed by code position (the goroutine making the n-th hit of each of the instrumentation sites cancels, then pauses 0 / 300 us); process sets (1..3 processes x message-flow links none / start+catch / two starts / two catches / uninstantiated catch x all answered or last tasks held) cancelled by trace count and at code points; one process per case; after cancel: goroutine census by label at the quiescent point (leaks, blocked waiters), spin detection, tracer/subscriber closure, context of late task requests; distinct = descriptor hash, all non-trivial (an instance is cancelled in every case); programs xor-cond-fails / or-cond-fails (conditions that cannot be evaluated)",
		WatchdogSec: 60,
		Assumptions: []string{"'promptly' is restated as 'by the quiescent point after cancel() returned'", "the context given to WithContext and StartAll is the same one"},
	})
}
