package props

import (
	"sync/atomic"
	"context"
	"encoding/json"
	"fmt"
	"sort"
	"sync"
	"time"

	bpmn "github.com/olive-io/bpmn/v2"
	"github.com/olive-io/bpmn/v2/pkg/id"
	"github.com/olive-io/bpmn/v2/pkg/tracing"

	"verif/internal/drive"
	"verif/internal/fw"
	"verif/internal/gen"
	"verif/internal/perturb"
	"verif/internal/step"
)

type c20Case struct {
	Name    string `json:"name"`
	Kind    string `json:"kind"`    // concurrent | multi | snapshot | fallback | traces
	G       int    `json:"g"`       // goroutines / generators
	Min     int    `json:"min,omitempty"` // snapshot-live: lower bound of the sequence pool (G is the upper bound)
	N       int    `json:"n"`       // draws (total or per generator)
	Points  []int  `json:"points"`  // snapshot: draws before each snapshot/restore
	Rounds  int    `json:"rounds"`  // fallback rounds
	Fallback bool  `json:"fallback,omitempty"` // traces: instances use a fallback generator
	Restore int    `json:"restore"` // snapshot: draws from the restored generator
}

func c20Cases(tier string, seed uint64) []fw.Case {
	rng := fw.NewRng(seed, "C20")
	total := 1000000
	points := 200
	fb, rounds := 64, 4000
	if tier == "thorough" {
		total = 5000000
		points = 5000
		fb, rounds = 64, 20000
	}
	var cs []fw.Case
	// the id pool rolls over every 4 ms time unit: a run has to span many of them under full contention
	for _, g := range []int{1, 2, 4, 8, 16, 32} {
		for r := 0; r < 2; r++ {
			c := c20Case{Kind: "concurrent", G: g, N: total}
			c.Name = fmt.Sprintf("concurrent/g%d/n%d/r%d", g, total, r)
			cs = append(cs, fw.MkCase("concurrent", &c))
		}
	}
	for n := 1; n <= 8; n++ {
		c := c20Case{Kind: "multi", G: n, N: total / 100}
		c.Name = fmt.Sprintf("multi/%d-generators", n)
		cs = append(cs, fw.MkCase("multi", &c))
	}
	// snapshot/restore points, in shards of 50
	for sh := 0; sh < points/50; sh++ {
		var ps []int
		for i := 0; i < 50; i++ {
			switch rng.Intn(4) {
			case 0:
				ps = append(ps, 0) // immediately
			case 1:
				ps = append(ps, 1+rng.Intn(5))
			case 2:
				ps = append(ps, 100+rng.Intn(2000))
			default:
				ps = append(ps, 60000+rng.Intn(20000)) // crosses the 65535-per-time-unit pool
			}
		}
		c := c20Case{Kind: "snapshot", Points: ps, Restore: 300}
		c.Name = fmt.Sprintf("snapshot/shard%d", sh)
		cs = append(cs, fw.MkCase("snapshot", &c))
	}
	for sh := 0; sh < 4; sh++ {
		c := c20Case{Kind: "fallback", G: fb, Rounds: rounds / 4}
		c.Name = fmt.Sprintf("fallback/%dx%d/%d", fb, rounds/4, sh)
		cs = append(cs, fw.MkCase("fallback", &c))
	}
	// snapshots taken from a generator that is being drawn from at full speed (small sequence pools, so that it
	// spends most of each time unit waiting out a sequence overflow), restored and drawn from at once
	for _, pool := range [][2]int{{0, 15}, {0, 255}, {65280, 65535}, {65520, 65535}} {
		// (the last two pools end at the top of the 16-bit sequence space: while they overflow the generator's
		// internal counter is beyond what 16 bits hold)
		c := c20Case{Kind: "snapshot-live", Min: pool[0], G: pool[1], Rounds: 60}
		if tier == "thorough" {
			c.Rounds = 600
		}
		c.Name = fmt.Sprintf("snapshot-live/pool%d-%d", pool[0], pool[1])
		cs = append(cs, fw.MkCase("snapshot-live", &c))
	}
	// one long-lived generator among tens of thousands of short-lived ones (more than the 65535 partitions a
	// program has): whatever the late generators are given, their ids must not repeat the long-lived one's
	{
		c := c20Case{Kind: "many-generators", G: 66000, Rounds: 24}
		c.Name = "many-generators/66000"
		cs = append(cs, fw.MkCase("many-generators", &c))
	}
	// the same seen through the engine: a few instances on default generators stay alive while the program uses
	// up its supply of generators; instances created afterwards (whatever their default generator is then) run at
	// the same time as the early ones: instance ids and flow ids in the traces must not repeat
	{
		c := c20Case{Kind: "instances-after-exhaustion", G: 6, N: 70000}
		c.Name = "instances-after-exhaustion/6"
		cs = append(cs, fw.MkCase("instances-after-exhaustion", &c))
	}
	// one fallback generator drawn concurrently
	for _, g := range []int{2, 4, 16, 32} {
		c := c20Case{Kind: "fbconc", G: g, N: total / 5}
		c.Name = fmt.Sprintf("fallback-concurrent/g%d/n%d", g, total/5)
		cs = append(cs, fw.MkCase("fbconc", &c))
	}
	for sh := 0; sh < 4; sh++ {
		c := c20Case{Kind: "traces", G: 12, N: 5}
		c.Name = fmt.Sprintf("traces/%d", sh)
		cs = append(cs, fw.MkCase("traces", &c))
	}
	// the same with every instance on the fallback generator (forked flows draw concurrently)
	for sh := 0; sh < 2; sh++ {
		c := c20Case{Kind: "traces", G: 12, N: 5, Fallback: true}
		c.Name = fmt.Sprintf("traces-fallback/%d", sh)
		cs = append(cs, fw.MkCase("traces", &c))
	}
	return fw.Number(cs)
}

func dupStrings(ids []string) (string, int) {
	sort.Strings(ids)
	dups := 0
	first := ""
	for i := 1; i < len(ids); i++ {
		if ids[i] == ids[i-1] {
			dups++
			if first == "" {
				first = ids[i]
			}
		}
	}
	return first, dups
}

func c20NewGen(ctx context.Context) (id.IGenerator, tracing.ITracer, error) {
	tr := tracing.NewTracer(ctx)
	g, err := id.GetSno().NewIdGenerator(ctx, tr)
	return g, tr, err
}

func c20Run(c *c20Case, env *fw.Env, v *fw.V) {
	ctx, cancel := context.WithCancel(context.Background())
	defer cancel()
	switch c.Kind {
	case "concurrent":
		g, _, err := c20NewGen(ctx)
		if err != nil {
			v.Violate("generator-error", "sno", "%v", err)
			return
		}
		per := c.N / c.G
		out := make([][]string, c.G)
		var wg sync.WaitGroup
		barrier := make(chan struct{})
		for i := 0; i < c.G; i++ {
			wg.Add(1)
			go func(i int) {
				defer wg.Done()
				ids := make([]string, per)
				<-barrier
				for k := range ids {
					ids[k] = string(g.New().Bytes())
				}
				out[i] = ids
			}(i)
		}
		close(barrier)
		wg.Wait()
		var all []string
		for _, o := range out {
			all = append(all, o...)
		}
		if d, n := dupStrings(all); n > 0 {
			v.Violate("duplicate-id", fmt.Sprintf("concurrent-g%d", c.G), "%d duplicate ids among %d drawn by %d goroutines from one generator (first: %x)", n, len(all), c.G, d)
		}
		v.Add("ids", len(all))
	case "multi":
		var gens []id.IGenerator
		for i := 0; i < c.G; i++ {
			g, _, err := c20NewGen(ctx)
			if err != nil {
				v.Violate("generator-error", "sno", "%v", err)
				return
			}
			gens = append(gens, g)
		}
		var all []string
		var mu sync.Mutex
		var wg sync.WaitGroup
		for _, g := range gens {
			wg.Add(1)
			go func(g id.IGenerator) {
				defer wg.Done()
				ids := make([]string, c.N)
				for k := range ids {
					ids[k] = string(g.New().Bytes())
				}
				mu.Lock()
				all = append(all, ids...)
				mu.Unlock()
			}(g)
		}
		wg.Wait()
		if d, n := dupStrings(all); n > 0 {
			v.Violate("duplicate-id", "several-generators", "%d duplicate ids among %d drawn from %d generators alive at once (first: %x)", n, len(all), c.G, d)
		}
		v.Add("ids", len(all))
	case "many-generators":
		tr := tracing.NewTracer(ctx)
		g0, err := id.GetSno().NewIdGenerator(ctx, tr)
		if err != nil {
			v.Violate("generator-error", "sno", "%v", err)
			return
		}
		seen := map[string]string{}
		note := func(who string, idv id.Id) bool {
			k := string(idv.Bytes())
			if prev, dup := seen[k]; dup {
				v.Violate("duplicate-id", "many-generators", "id %x issued twice: by %s and by %s (one long-lived generator, %d generators created so far)", k, prev, who, len(seen))
				return false
			}
			seen[k] = who
			return true
		}
		created, refused := 0, 0
		for i := 0; i < c.G; i++ {
			gctx, gcancel := context.WithCancel(ctx)
			g, err := id.GetSno().NewIdGenerator(gctx, tr)
			if err != nil {
				// the program has used up its generators: later ones are refused (callers fall back)
				refused++
				gcancel()
				continue
			}
			created++
			if i%997 == 0 || i >= 65000 {
				who := fmt.Sprintf("generator #%d", i+2)
				for r := 0; r < c.Rounds; r++ {
					if !note("the long-lived generator", g0.New()) || !note(who, g.New()) {
						gcancel()
						return
					}
				}
			}
			gcancel()
		}
		v.Add("ids", len(seen))
		v.Add("generators-created", created)
		v.Add("generators-refused", refused)
	case "instances-after-exhaustion":
		g := gen.Lower("p", gen.Seq(gen.T(), &gen.Block{Kind: "and", Default: -1, Kids: []*gen.Block{gen.T(), gen.T()}}))
		defs, _, err := step.Parse(g)
		if err != nil {
			v.Inconclusive("parse", "%v", err)
			return
		}
		perturb.Off()
		element := &(*defs.Processes())[0]
		type inst struct {
			p      *bpmn.Process
			traces chan tracing.ITrace
			stop   context.CancelFunc
		}
		mk := func() (*inst, error) {
			ictx, stop := context.WithCancel(ctx)
			tr := tracing.NewTracer(ictx)
			traces := tr.SubscribeChannel(make(chan tracing.ITrace, 1024))
			p, err := bpmn.NewProcess(element, defs, bpmn.WithContext(ictx), bpmn.WithTracer(tr))
			if err != nil {
				stop()
				return nil, err
			}
			return &inst{p: p, traces: traces, stop: stop}, nil
		}
		// run: start, answer every task, collect the instance id and the flow ids until the instance ceases
		run := func(in *inst) ([]string, bool) {
			ids := []string{in.p.Id().String()}
			if err := in.p.StartAll(ctx); err != nil {
				return ids, false
			}
			deadline := time.After(step.Watchdog)
			for {
				select {
				case t := <-in.traces:
					switch tr := tracing.Unwrap(t).(type) {
					case bpmn.NewFlowTrace:
						ids = append(ids, tr.FlowId.String())
					case bpmn.TaskTrace:
						tr.Do()
					case bpmn.CeaseFlowTrace:
						return ids, true
					}
				case <-deadline:
					return ids, false
				}
			}
		}
		partition := func(x id.Id) (uint16, bool) {
			if s, ok := x.(*id.SnoId); ok {
				return s.Partition().AsUint16(), true
			}
			return 0, false
		}
		early := map[uint16]*inst{}
		var order []uint16
		for i := 0; i < c.G; i++ {
			in, err := mk()
			if err != nil {
				v.Violate("new-process-error", "default-generator", "%v", err)
				return
			}
			pt, ok := partition(in.p.Id())
			if !ok {
				v.Inconclusive("setup", "the program had no generators left at the start of the case")
				return
			}
			early[pt] = in
			order = append(order, pt)
		}
		// use up the program's supply
		wtr := tracing.NewTracer(ctx)
		used := 0
		for ; used < c.N; used++ {
			gctx, gstop := context.WithCancel(ctx)
			_, err := id.GetSno().NewIdGenerator(gctx, wtr)
			gstop()
			if err != nil {
				break
			}
		}
		v.Add("generators-created", used)
		pairs, compared := 0, 0
		for i := 0; i < c.N && pairs < c.G && len(early) > 0; i++ {
			late, err := mk()
			if err != nil {
				v.Violate("new-process-error", "default-generator", "after %d generators: %v", used+i, err)
				return
			}
			var first *inst
			if pt, ok := partition(late.p.Id()); ok {
				// a generator of the same family as the early ones: only one on the same partition could repeat their ids
				first = early[pt]
				if first == nil {
					late.stop()
					continue
				}
				delete(early, pt)
			} else {
				// another kind of generator (the fallback): compare with the next early instance, once
				for _, pt := range order {
					if early[pt] != nil {
						first = early[pt]
						delete(early, pt)
						break
					}
				}
				pairs = c.G - 1
			}
			pairs++
			var wg sync.WaitGroup
			var a, b []string
			var oka, okb bool
			wg.Add(2)
			go func() { defer wg.Done(); a, oka = run(first) }()
			go func() { defer wg.Done(); b, okb = run(late) }()
			wg.Wait()
			first.stop()
			late.stop()
			if !oka || !okb {
				v.Inconclusive("watchdog", "an instance did not complete (early %v, late %v)", oka, okb)
				return
			}
			compared += len(a) + len(b)
			if d, n := dupStrings(append(append([]string(nil), a...), b...)); n > 0 {
				v.Violate("duplicate-id", "instances-after-exhaustion", "id %s (instance id or flow id) was issued to an instance created at the start of the program and to one created after %d further generators, both running at the same time", d, used+i)
				return
			}
		}
		for _, in := range early {
			in.stop()
		}
		v.Add("ids", compared)
		v.Add("pairs", pairs)
	case "snapshot-live":
		tr := tracing.NewTracer(ctx)
		cfg := []byte(fmt.Sprintf(`{"partition":[201,7],"sequenceMin":%d,"sequenceMax":%d}`, c.Min, c.G))
		first, err := id.GetSno().RestoreIdGenerator(ctx, cfg, tr)
		if err != nil {
			v.Violate("generator-error", "sno", "%v", err)
			return
		}
		snapper, ok := first.(interface{ Snapshot() ([]byte, error) })
		if !ok {
			v.Inconclusive("api", "generator has no Snapshot")
			return
		}
		const capacity = 1 << 18
		drawn := make([]string, capacity)
		var published atomic.Int64
		var stop atomic.Bool
		done := make(chan struct{})
		go func() {
			defer close(done)
			for i := 0; i < capacity && !stop.Load(); i++ {
				drawn[i] = string(first.New().Bytes())
				published.Store(int64(i + 1))
			}
		}()
		restores := 0
		for r := 0; r < c.Rounds && int(published.Load()) < capacity-1; r++ {
			before := int(published.Load()) // everything in drawn[:before] was returned before the snapshot
			snap, err := snapper.Snapshot()
			if err != nil {
				v.Violate("snapshot-error", "sno", "%v", err)
				break
			}
			rctx, rcancel := context.WithCancel(ctx)
			rg, err := id.GetSno().RestoreIdGenerator(rctx, snap, tr)
			if err != nil {
				rcancel()
				v.Violate("restore-error", "sno", "%v", err)
				break
			}
			var fresh []string
			for k := 0; k < 8; k++ {
				fresh = append(fresh, string(rg.New().Bytes()))
			}
			rcancel()
			restores++
			seen := map[string]bool{}
			for _, s := range drawn[:before] {
				seen[s] = true
			}
			dup := ""
			for _, s := range fresh {
				if seen[s] {
					dup = s
				}
			}
			v.Add("ids", before+len(fresh))
			if dup != "" {
				v.Violate("duplicate-id", "snapshot-restore-live", "a generator restored from a snapshot taken while the original was being drawn from (pool of %d ids per time unit, %d ids issued before the snapshot) re-issued id %x", c.G-c.Min+1, before, dup)
				break
			}
			time.Sleep(time.Duration(200+r%7*300) * time.Microsecond)
		}
		stop.Store(true)
		<-done
		v.Add("restores", restores)
	case "snapshot":
		for _, p := range c.Points {
			g, tr, err := c20NewGen(ctx)
			if err != nil {
				v.Violate("generator-error", "sno", "%v", err)
				return
			}
			var all []string
			for i := 0; i < p; i++ {
				all = append(all, string(g.New().Bytes()))
			}
			snap, err := g.Snapshot()
			if err != nil {
				v.Violate("snapshot-error", "sno", "%v", err)
				return
			}
			r, err := id.GetSno().RestoreIdGenerator(ctx, snap, tr)
			if err != nil {
				v.Violate("restore-error", "sno", "%v", err)
				return
			}
			for i := 0; i < c.Restore; i++ {
				all = append(all, string(r.New().Bytes()))
			}
			if d, n := dupStrings(all); n > 0 {
				v.Violate("duplicate-id", "snapshot-restore", "%d ids of the restored generator repeat ids issued before the snapshot (snapshot after %d draws; first: %x)", n, p, d)
				return
			}
			v.Add("ids", len(all))
			v.Add("restores", 1)
		}
	case "fbconc":
		g := id.NewFallbackGenerator()
		per := c.N / c.G
		out := make([][]string, c.G)
		var wg sync.WaitGroup
		barrier := make(chan struct{})
		for i := 0; i < c.G; i++ {
			wg.Add(1)
			go func(i int) {
				defer wg.Done()
				ids := make([]string, per)
				<-barrier
				for k := range ids {
					ids[k] = g.New().String()
				}
				out[i] = ids
			}(i)
		}
		close(barrier)
		wg.Wait()
		var all []string
		for _, o := range out {
			all = append(all, o...)
		}
		if d, n := dupStrings(all); n > 0 {
			v.Violate("duplicate-id", "fallback-concurrent", "%d duplicate ids among %d drawn by %d goroutines from one fallback generator (first: %s)", n, len(all), c.G, d)
		}
		v.Add("ids", len(all))
	case "fallback":
		for r := 0; r < c.Rounds; r++ {
			gens := make([]id.IGenerator, c.G)
			var wg sync.WaitGroup
			barrier := make(chan struct{})
			for i := range gens {
				wg.Add(1)
				go func(i int) {
					defer wg.Done()
					<-barrier
					gens[i] = id.NewFallbackGenerator()
				}(i)
			}
			close(barrier)
			wg.Wait()
			var all []string
			for _, g := range gens {
				for k := 0; k < 3; k++ {
					all = append(all, g.New().String())
				}
			}
			v.Add("ids", len(all))
			if d, n := dupStrings(all); n > 0 {
				v.Violate("duplicate-id", "fallback-generators", "%d duplicate ids among %d fallback generators created concurrently (round %d; first: %s)", n, c.G, r, d)
				return
			}
		}
	case "traces":
		// several instances running at once in this program, each with its own default generator
		g := gen.Lower("p", gen.Seq(gen.T(), &gen.Block{Kind: "and", Default: -1, Kids: []*gen.Block{gen.T(), gen.T(), gen.T()}}, gen.T()))
		defs, _, err := step.Parse(g)
		if err != nil {
			v.Inconclusive("parse", "%v", err)
			return
		}
		perturb.Off()
		var mu sync.Mutex
		var flowIDs, instIDs []string
		var wg sync.WaitGroup
		for round := 0; round < c.N; round++ {
			for i := 0; i < c.G; i++ {
				wg.Add(1)
				go func() {
					defer wg.Done()
					var in *drive.Inst
					var idgen id.IGenerator
					if c.Fallback {
						idgen = id.NewFallbackGenerator()
					}
					in, err := drive.New(env.Label, defs, drive.Opts{IdGen: idgen, OnTrace: func(in *drive.Inst, e *drive.Ev) {
						if e.Kind == "Task" {
							for _, r := range in.Pending() {
								if r.N == e.Req {
									in.Answer(r, bpmn.DoWithResults(nil))
								}
							}
						}
					}})
					if err != nil {
						return
					}
					w := in.Wait(in.Ctx)
					in.Proc.StartAll(in.Ctx)
					for k := 0; k < 100000; k++ {
						if ret, _, _ := in.WaiterState(w); ret {
							break
						}
						time.Sleep(100 * time.Microsecond)
					}
					var f []string
					for _, e := range in.Log(0) {
						if e.Kind == "NewFlow" {
							f = append(f, e.Flow)
						}
					}
					mu.Lock()
					flowIDs = append(flowIDs, f...)
					instIDs = append(instIDs, in.Proc.Id().String())
					mu.Unlock()
					in.Cancel()
				}()
			}
			wg.Wait()
		}
		if d, n := dupStrings(flowIDs); n > 0 {
			v.Violate("duplicate-id", "flow-ids-in-traces", "%d flow ids repeat among %d observed in the traces of %d instances (first: %s)", n, len(flowIDs), len(instIDs), d)
		}
		all := append(append([]string(nil), flowIDs...), instIDs...)
		if d, n := dupStrings(all); n > 0 {
			v.Violate("duplicate-id", "instance-ids", "%d ids repeat among instance and flow ids (first: %s)", n, d)
		}
		v.Add("ids", len(all))
		v.Add("instances", len(instIDs))
	}
}

func init() {
	fw.Register(&fw.Prop{
		ID:            "C20",
		OnePerProcess: true, // a program has a fixed supply of generators: every case starts with a full one
		Cases: c20Cases,
		Run: func(c fw.Case, env *fw.Env) *fw.V {
			v := fw.NewV(c)
			var cc c20Case
			if err := json.Unmarshal(c.Desc, &cc); err != nil {
				v.Inconclusive("descriptor", "%v", err)
				return v
			}
			c20Run(&cc, env, v)
			v.Nontrivial = v.Stats["ids"] > 1
			return v
		},
		Rule:        "exact duplicate detection over all ids drawn: one sno generator x {1,2,4,8,16,32} goroutines x 1e6 (quick) / 5e6 (thorough) draws, twice each (a run spans many 4 ms time units of the id pool); 1..8 generators alive at once; one long-lived generator among 66 000 short-lived ones created one after the other (more than a program's supply), sampled late generators drawn alternately with the long-lived one; snapshot/restore at PRNG points of the draw history (0 draws = immediately, a few, thousands, beyond the 65535-per-time-unit pool) with the restored generator's output merged with the output before the snapshot; snapshots taken while another goroutine draws at full speed from a generator with a small sequence pool (16 / 256 ids per time unit: mostly waiting out overflows), restored and drawn from at once, compared with everything issued before the snapshot; 16/64 fallback generators created behind a barrier x rounds; one fallback generator x {2,4,16,32} goroutines x 2e5 / 1e6 draws; flow and instance ids observed in the traces of 60 instances run 12 at a time in one program (on the default and on fallback generators); a case is non-trivial when it compared > 1 id; distinct = descriptor hash; 'measured.ids' = ids compared",
		Assumptions: []string{"wall-clock regressions (sno's drift branch) cannot be injected and are not claimed"},
		Batch:       2,
		MaxShards:   6,
	})
}
