package props

import (
	"context"
	"encoding/json"
	"fmt"
	"strings"

	"github.com/olive-io/bpmn/schema"
	bpmn "github.com/olive-io/bpmn/v2"
	"github.com/olive-io/bpmn/v2/pkg/event"
	"github.com/olive-io/bpmn/v2/pkg/logic"
	"github.com/olive-io/bpmn/v2/model"
	"github.com/olive-io/bpmn/v2/pkg/clock"
	"github.com/olive-io/bpmn/v2/pkg/timer"
	"github.com/olive-io/bpmn/v2/pkg/tracing"

	"verif/internal/drive"
	"verif/internal/fw"
	"verif/internal/gen"
	"verif/internal/perturb"
	"verif/internal/quiesce"
	"verif/internal/step"
)

type c14Case struct {
	Name   string `json:"name"`
	Level  string `json:"level"`  // satisfier | process
	Kind   string `json:"kind"`   // parallel | plain | throw
	Defs   int    `json:"defs"`   // 1..4
	MaxLen int    `json:"maxlen"` // histories up to this length
	Prefix []int  `json:"prefix"` // satisfier level: fixed prefix (shards the enumeration)
	Hist   []int  `json:"hist"`   // process level: the history
	Bal    int    `json:"bal,omitempty"` // satisfier level: every ordering of the history in which each definition is matched exactly Bal times
}

func c14Defs(tier string) (int, int) {
	if tier == "thorough" {
		return 9, 5
	}
	return 7, 4
}

func c14Cases(tier string, seed uint64) []fw.Case {
	var cs []fw.Case
	maxLen, procLen := c14Defs(tier)
	for _, kind := range []string{"parallel", "plain", "throw"} {
		for d := 1; d <= 4; d++ {
			// shard by the first two events
			for a := 0; a <= d; a++ {
				for b := 0; b <= d; b++ {
					c := c14Case{Level: "satisfier", Kind: kind, Defs: d, MaxLen: maxLen, Prefix: []int{a, b}}
					c.Name = fmt.Sprintf("satisfier/%s/d%d/prefix%d%d", kind, d, a, b)
					cs = append(cs, fw.MkCase("satisfier", &c))
				}
			}
			// histories shorter than the prefix
			c := c14Case{Level: "satisfier", Kind: kind, Defs: d, MaxLen: 1}
			c.Name = fmt.Sprintf("satisfier/%s/d%d/short", kind, d)
			cs = append(cs, fw.MkCase("satisfier", &c))
		}
	}
	// balanced histories: every ordering of "each definition matched exactly k times" (longer than the
	// exhaustive bound: d*k events; many partial sets open at once, completed and removed in every order)
	bal := [][2]int{{2, 4}, {2, 5}, {2, 6}, {3, 3}, {3, 4}, {4, 2}}
	if tier == "thorough" {
		bal = append(bal, [2]int{2, 8}, [2]int{3, 5}, [2]int{4, 3}, [2]int{5, 2})
	}
	for _, kind := range []string{"parallel", "throw"} {
		for _, dk := range bal {
			c := c14Case{Level: "satisfier", Kind: kind, Defs: dk[0], Bal: dk[1]}
			c.Name = fmt.Sprintf("satisfier/%s/d%d/balanced%d", kind, dk[0], dk[1])
			cs = append(cs, fw.MkCase("satisfier", &c))
		}
	}
	for _, kind := range []string{"parallel", "plain"} {
		for d := 1; d <= 3; d++ {
			var rec func(p []int)
			rec = func(p []int) {
				if len(p) > 0 {
					c := c14Case{Level: "process", Kind: kind, Defs: d, Hist: append([]int(nil), p...)}
					c.Name = fmt.Sprintf("process/%s/d%d/%v", kind, d, p)
					cs = append(cs, fw.MkCase("process", &c))
				}
				if len(p) == procLen {
					return
				}
				for e := 0; e <= d; e++ {
					rec(append(p, e))
				}
			}
			rec(nil)
		}
	}
	// mixed definition kinds, one of which can never be matched (a timer definition without date / cycle / duration)
	for _, kind := range []string{"parallel", "plain"} {
		c := c14Case{Level: "mixed", Kind: kind, Defs: 3, MaxLen: 6}
		c.Name = "mixed/" + kind
		cs = append(cs, fw.MkCase("mixed", &c))
	}
	// model level: the start-event consumer of package model (parallel-multiple start events), sharded by the first event
	mlen := 8
	if tier == "thorough" {
		mlen = 9
	}
	for d := 2; d <= 3; d++ {
		for a := 0; a <= d; a++ {
			for b := 0; b <= d; b++ {
				c := c14Case{Level: "model", Kind: "parallel", Defs: d, MaxLen: mlen, Prefix: []int{a, b}}
				c.Name = fmt.Sprintf("model/parallel/d%d/prefix%d%d", d, a, b)
				cs = append(cs, fw.MkCase("model", &c))
			}
		}
	}
	// process level, two activations: a second token reaches the same catch event when the history says so
	// (-1 = answer the task in front of it); events may arrive while no token waits
	for _, kind := range []string{"parallel", "plain"} {
		for d := 1; d <= 3; d++ {
			var rec func(p []int, held bool)
			rec = func(p []int, held bool) {
				if len(p) > 0 {
					c := c14Case{Level: "process2", Kind: kind, Defs: d, Hist: append([]int(nil), p...)}
					c.Name = fmt.Sprintf("process2/%s/d%d/%v", kind, d, p)
					cs = append(cs, fw.MkCase("process2", &c))
				}
				if len(p) == procLen+1 {
					return
				}
				for e := -1; e <= d; e++ {
					if e == -1 && !held {
						continue
					}
					rec(append(p, e), held && e != -1)
				}
			}
			rec(nil, true)
		}
	}
	return fw.Number(cs)
}

func c14Element(kind string, d int) (*schema.IntermediateCatchEvent, *schema.IntermediateThrowEvent, error) {
	g := gen.NewGraph("c14")
	s := g.Add(gen.Start, "start", "")
	k := gen.Catch
	if kind == "throw" {
		k = gen.Throw
	}
	c := g.Add(k, "c", "")
	c.Par = kind == "parallel"
	for i := 0; i < d; i++ {
		c.Events = append(c.Events, gen.EventDef{Type: "signal", Ref: fmt.Sprintf("s%d", i)})
	}
	e := g.Add(gen.End, "end", "")
	g.Connect(s, c, nil)
	g.Connect(c, e, nil)
	defs, _, err := step.Parse(g)
	if err != nil {
		return nil, nil, err
	}
	p := &(*defs.Processes())[0]
	if kind == "throw" {
		return nil, &(*p.IntermediateThrowEvents())[0], nil
	}
	return &(*p.IntermediateCatchEvents())[0], nil, nil
}

type sat interface {
	Satisfy(ev event.IEvent) (bool, int)
}

type c14Elem struct {
	ce *schema.IntermediateCatchEvent
	te *schema.IntermediateThrowEvent
}

var c14Cache = map[string]c14Elem{}

func c14New(kind string, d int) (sat, error) {
	key := fmt.Sprintf("%s-%d", kind, d)
	el, ok := c14Cache[key]
	if !ok {
		ce, te, err := c14Element(kind, d)
		if err != nil {
			return nil, err
		}
		el = c14Elem{ce, te}
		c14Cache[key] = el
	}
	ce, te := el.ce, el.te
	if kind == "throw" {
		return logic.NewThrowEventSatisfier(te, event.WrappingDefinitionInstanceBuilder), nil
	}
	return logic.NewCatchEventSatisfier(ce, event.WrappingDefinitionInstanceBuilder), nil
}

func c14Ev(i, d int) event.IEvent {
	if i >= d {
		return event.NewSignalEvent("nomatch")
	}
	return event.NewSignalEvent(fmt.Sprintf("s%d", i))
}

// check one history on fresh satisfiers; returns a violation message or "".
func c14Check(kind string, d int, h []int, v *fw.V) (string, string) {
	s1, err := c14New(kind, d)
	if err != nil {
		return "setup", err.Error()
	}
	s2, _ := c14New(kind, d) // fed with the history stripped of non-matching events
	counts := make([]int, d)
	fired := 0
	allAtLeastOne := true
	_ = allAtLeastOne
	parallel := kind == "parallel" || (kind == "throw" && d > 1)
	if d == 1 {
		parallel = false
	}
	for i, e := range h {
		m1, chain := s1.Satisfy(c14Ev(e, d))
		if e >= d {
			if m1 || chain != logic.EventDidNotMatch {
				return "nonmatching-fired", fmt.Sprintf("%s d=%d history %v: non-matching event at %d reported matched=%v chain=%d", kind, d, h, i, m1, chain)
			}
			continue
		}
		m2, _ := s2.Satisfy(c14Ev(e, d))
		if m1 != m2 {
			return "nonmatching-changed-state", fmt.Sprintf("%s d=%d history %v: result at %d is %v but %v when the non-matching events are removed", kind, d, h, i, m1, m2)
		}
		counts[e]++
		if m1 {
			fired++
		}
		if !parallel {
			if !m1 {
				return "plain-not-fired", fmt.Sprintf("%s d=%d history %v: single matching event at %d did not fire", kind, d, h, i)
			}
			continue
		}
		min, max := counts[0], counts[0]
		for _, c := range counts {
			if c < min {
				min = c
			}
			if c > max {
				max = c
			}
		}
		if fired > min {
			return "fired-more-than-least-matched", fmt.Sprintf("%s d=%d history %v: fired %d times after %d events, least-matched definition matched %d times", kind, d, h, fired, i+1, min)
		}
		if min == max && fired != min {
			return "fired-count-mismatch", fmt.Sprintf("%s d=%d history %v: every definition matched %d times after %d events but fired %d times", kind, d, h, min, i+1, fired)
		}
	}
	return "", ""
}

func c14Satisfier(c *c14Case, v *fw.V) {
	n := 0
	if c.Bal > 0 {
		left := make([]int, c.Defs)
		for i := range left {
			left[i] = c.Bal
		}
		h := make([]int, 0, c.Defs*c.Bal)
		stop := false
		var rec func()
		rec = func() {
			if stop {
				return
			}
			if len(h) == c.Defs*c.Bal {
				n++
				if rule, msg := c14Check(c.Kind, c.Defs, h, v); rule != "" {
					v.Violate(rule, fmt.Sprintf("%s-defs=%d", c.Kind, c.Defs), "%s", msg)
					stop = true
				}
				return
			}
			for e := 0; e < c.Defs; e++ {
				if left[e] > 0 {
					left[e]--
					h = append(h, e)
					rec()
					h = h[:len(h)-1]
					left[e]++
				}
			}
		}
		rec()
		v.Add("histories", n)
		v.Add("balanced-histories", n)
		return
	}
	var rec func(h []int)
	stop := false
	rec = func(h []int) {
		if stop {
			return
		}
		if len(h) >= len(c.Prefix) || len(c.Prefix) == 0 {
			n++
			if rule, msg := c14Check(c.Kind, c.Defs, h, v); rule != "" {
				v.Violate(rule, fmt.Sprintf("%s-defs=%d", c.Kind, c.Defs), "%s", msg)
				stop = true
				return
			}
		}
		if len(h) == c.MaxLen {
			return
		}
		for e := 0; e <= c.Defs; e++ {
			rec(append(h, e))
		}
	}
	if len(c.Prefix) > 0 {
		rec(append([]int(nil), c.Prefix...))
	} else {
		rec(nil)
	}
	v.Add("histories", n)
}

func c14Process(c *c14Case, env *fw.Env, v *fw.V) {
	g := gen.NewGraph("c14")
	s := g.Add(gen.Start, "start", "")
	ce := g.Add(gen.Catch, "c", "")
	ce.Par = c.Kind == "parallel"
	for i := 0; i < c.Defs; i++ {
		ce.Events = append(ce.Events, gen.EventDef{Type: "signal", Ref: fmt.Sprintf("s%d", i)})
	}
	t := g.Add(gen.Task, "t", "")
	e := g.Add(gen.End, "end", "")
	g.Connect(s, ce, nil)
	g.Connect(ce, t, nil)
	g.Connect(t, e, nil)
	defs, _, err := step.Parse(g)
	if err != nil {
		v.Inconclusive("parse", "%v", err)
		return
	}
	perturb.Off()
	in, err := drive.New(env.Label, defs, drive.Opts{ExtraSubs: 1})
	if err != nil {
		v.Violate("new-process-error", "error", "%v", err)
		return
	}
	defer in.Cancel()
	if err := in.Start(); err != nil {
		v.Violate("start-error", "error", "%v", err)
		return
	}
	cls := fmt.Sprintf("process-%s-defs=%d", c.Kind, c.Defs)
	seen := make([]bool, c.Defs)
	expect := 0
	for i, ev := range c.Hist {
		q := in.Quiesce(step.Watchdog)
		if !q.Quiescent {
			v.Inconclusive("watchdog", "no quiescent point: %v", quiesce.Summary(q.Gs))
			return
		}
		in.Go("ConsumeEvent", func() error { _, err := in.Proc.ConsumeEvent(c14Ev(ev, c.Defs)); return err })
		q = in.Quiesce(step.Watchdog)
		v.Add("qpoints", 1)
		if !q.Quiescent {
			v.Inconclusive("watchdog", "no quiescent point: %v", quiesce.Summary(q.Gs))
			return
		}
		if gs := quiesce.DriverIn(q.Gs, "Process).ConsumeEvent"); len(gs) > 0 {
			v.Violate("consume-blocked", cls, "ConsumeEvent blocked after %v", c.Hist[:i+1])
			return
		}
		if expect == 0 && ev < c.Defs {
			seen[ev] = true
			all := true
			for _, s := range seen {
				all = all && s
			}
			if c.Kind == "plain" || c.Defs == 1 || all {
				expect = 1
			}
		}
		if got := in.Count("Task", "t"); got != expect {
			v.Violate("process-fire-count", cls, "after events %v the task behind the %s catch event (%d definitions) was requested %d times, expected %d", c.Hist[:i+1], c.Kind, c.Defs, got, expect)
			v.Log = in.Tail(30)
			return
		}
	}
	if expect == 1 {
		for _, r := range in.Pending() {
			in.Answer(r, bpmn.DoWithResults(nil))
		}
		in.Quiesce(step.Watchdog)
		if n := in.Count("CeaseFlow", ""); n != 1 {
			v.Violate("not-complete", cls, "%d cease-flow traces after the task was answered", n)
		}
	}
}

// c14Process2: start -> fork -> (catch | hold -> catch) -> after -> end. The first token waits at the
// catch event from the start, the second arrives when the history answers `hold`. Events delivered
// while a token waits count towards the catch event's definitions; a firing releases every waiting
// token; events delivered while no token waits are dropped (they must not count for a later token).
func c14Process2(c *c14Case, env *fw.Env, v *fw.V) {
	g := gen.NewGraph("c14")
	s := g.Add(gen.Start, "start", "")
	f := g.Add(gen.And, "fork", "")
	ce := g.Add(gen.Catch, "c", "")
	ce.Par = c.Kind == "parallel"
	for i := 0; i < c.Defs; i++ {
		ce.Events = append(ce.Events, gen.EventDef{Type: "signal", Ref: fmt.Sprintf("s%d", i)})
	}
	hold := g.Add(gen.Task, "hold", "")
	t := g.Add(gen.Task, "after", "")
	e := g.Add(gen.End, "end", "")
	g.Connect(s, f, nil)
	g.Connect(f, ce, nil)
	g.Connect(f, hold, nil)
	g.Connect(hold, ce, nil)
	g.Connect(ce, t, nil)
	g.Connect(t, e, nil)
	defs, _, err := step.Parse(g)
	if err != nil {
		v.Inconclusive("parse", "%v", err)
		return
	}
	perturb.Off()
	in, err := drive.New(env.Label, defs, drive.Opts{ExtraSubs: 1})
	if err != nil {
		v.Violate("new-process-error", "error", "%v", err)
		return
	}
	defer in.Cancel()
	if err := in.Start(); err != nil {
		v.Violate("start-error", "error", "%v", err)
		return
	}
	cls := fmt.Sprintf("process2-%s-defs=%d", c.Kind, c.Defs)
	counts := make([]int, c.Defs)
	fired, waiting, expect := 0, 1, 0
	settle := func() bool {
		q := in.Quiesce(step.Watchdog)
		v.Add("qpoints", 1)
		if !q.Quiescent {
			v.Inconclusive("watchdog", "no quiescent point: %v", quiesce.Summary(q.Gs))
			return false
		}
		if gs := quiesce.DriverIn(q.Gs, "Process).ConsumeEvent"); len(gs) > 0 {
			v.Violate("consume-blocked", cls, "ConsumeEvent blocked during %v", c.Hist)
			return false
		}
		return true
	}
	if !settle() {
		return
	}
	for i, ev := range c.Hist {
		if ev == -1 {
			for _, r := range in.Pending() {
				if r.Act == "hold" {
					in.Answer(r, bpmn.DoWithResults(nil))
				}
			}
			waiting++
		} else {
			in.Go("ConsumeEvent", func() error { _, err := in.Proc.ConsumeEvent(c14Ev(ev, c.Defs)); return err })
			if waiting > 0 && ev < c.Defs {
				counts[ev]++
				least := counts[0]
				for _, n := range counts {
					least = min(least, n)
				}
				if c.Kind == "plain" || c.Defs == 1 || least > fired {
					fired++
					expect += waiting
					waiting = 0
					if c.Kind == "plain" || c.Defs == 1 {
						fired = 0
					}
				}
			}
		}
		if !settle() {
			return
		}
		if got := in.Count("Task", "after"); got != expect {
			v.Violate("process-fire-count", cls, "after history %v (-1 = second token sent to the catch event) the task behind the %s catch event (%d definitions) was requested %d times, expected %d", c.Hist[:i+1], c.Kind, c.Defs, got, expect)
			v.Log = in.Tail(30)
			return
		}
	}
}

// c14Mixed: a catch event with a signal, a message and an unconfigured timer definition, instances built by the
// chain model.New installs (timers first, plain wrapping for the rest). The timer definition can never be
// matched: a parallel-multiple catch event never fires (its least-matched definition stays at 0), a plain
// multiple one fires on every matching signal / message; both over all histories up to MaxLen.
func c14Mixed(c *c14Case, v *fw.V) {
	par := "false"
	if c.Kind == "parallel" {
		par = "true"
	}
	src := `<?xml version="1.0" encoding="UTF-8"?>
<bpmn:definitions xmlns:bpmn="http://www.omg.org/spec/BPMN/20100524/MODEL" id="D" targetNamespace="http://bpmn.io/schema/bpmn">
  <bpmn:process id="p" isExecutable="true">
    <bpmn:startEvent id="start"><bpmn:outgoing>f1</bpmn:outgoing></bpmn:startEvent>
    <bpmn:intermediateCatchEvent id="catch" parallelMultiple="` + par + `">
      <bpmn:incoming>f1</bpmn:incoming><bpmn:outgoing>f2</bpmn:outgoing>
      <bpmn:signalEventDefinition id="d_sig" signalRef="sig"/>
      <bpmn:messageEventDefinition id="d_msg" messageRef="msg"/>
      <bpmn:timerEventDefinition id="d_timer"/>
    </bpmn:intermediateCatchEvent>
    <bpmn:endEvent id="end"><bpmn:incoming>f2</bpmn:incoming></bpmn:endEvent>
    <bpmn:sequenceFlow id="f1" sourceRef="start" targetRef="catch"/>
    <bpmn:sequenceFlow id="f2" sourceRef="catch" targetRef="end"/>
  </bpmn:process>
  <bpmn:signal id="sig" name="sig"/><bpmn:message id="msg" name="msg"/>
</bpmn:definitions>`
	defs, err := schema.Parse([]byte(src))
	if err != nil {
		v.Inconclusive("parse", "%v", err)
		return
	}
	el := &(*(*defs.Processes())[0].IntermediateCatchEvents())[0].CatchEvent
	cls := "mixed-" + c.Kind
	mk := func(k int) event.IEvent {
		switch k {
		case 0:
			return event.NewSignalEvent("sig")
		case 1:
			return event.NewMessageEvent("msg", nil)
		}
		return event.NewSignalEvent("nomatch")
	}
	n := 0
	run := func(h []int) bool {
		n++
		ctx, cancel := context.WithCancel(clock.ToContext(context.Background(), clock.NewMock()))
		defer cancel()
		builder := event.DefinitionInstanceBuildingChain(
			timer.EventDefinitionInstanceBuilder(ctx, event.NewFanOut(), tracing.NewTracer(ctx)),
			event.WrappingDefinitionInstanceBuilder,
		)
		ok := true
		func() {
			defer func() {
				if r := recover(); r != nil {
					v.Violate("satisfier-panic", cls, "history %v: %v", h, r)
					ok = false
				}
			}()
			sat := logic.NewCatchEventSatisfier(el, builder)
			for i, k := range h {
				fired, chain := sat.Satisfy(mk(k))
				switch {
				case k == 2 && (fired || chain != logic.EventDidNotMatch):
					v.Violate("nonmatching-fired", cls, "history %v: the non-matching event at %d reported matched=%v chain=%d", h, i, fired, chain)
					ok = false
				case k < 2 && chain == logic.EventDidNotMatch:
					v.Violate("matching-not-matched", cls, "history %v: event %d at %d did not match its definition", h, k, i)
					ok = false
				case k < 2 && c.Kind == "parallel" && fired:
					v.Violate("fired-more-than-least-matched", cls, "history %v: the parallel-multiple catch event fired at %d although its timer definition has never been matched", h, i)
					ok = false
				case k < 2 && c.Kind == "plain" && !fired:
					v.Violate("plain-not-fired", cls, "history %v: the matching event at %d did not fire the (non-parallel) multiple catch event", h, i)
					ok = false
				}
				if !ok {
					return
				}
			}
		}()
		return ok
	}
	var rec func(h []int) bool
	rec = func(h []int) bool {
		if len(h) > 0 && !run(h) {
			return false
		}
		if len(h) == c.MaxLen {
			return true
		}
		for e := 0; e <= 2; e++ {
			if !rec(append(append([]int(nil), h...), e)) {
				return false
			}
		}
		return true
	}
	rec(nil)
	v.Add("histories", n)
}

// c14Recorder records every event a process is handed.
type c14Recorder struct{ seen []event.IEvent }

func (r *c14Recorder) ConsumeEvent(ev event.IEvent) (event.ConsumptionResult, error) {
	r.seen = append(r.seen, ev)
	return event.Consumed, nil
}

// c14Model: a process whose parallel-multiple start event has d signal definitions is run inside a model.Model;
// the model's start-event consumer buffers the matching events per partially matched set and, when a set is
// complete, replays the buffered events of THAT set to the process. Over every history: never more replayed sets than
// the least-matched definition count, exactly k when every definition was matched exactly k times; a replay consists of exactly one earlier-delivered event
// per other definition; no event is replayed twice; a non-matching event changes nothing.
func c14Model(c *c14Case, v *fw.V) {
	g := gen.NewGraph("c14m")
	s := g.Add(gen.Start, "pmstart", "")
	s.Par = true
	for i := 0; i < c.Defs; i++ {
		s.Events = append(s.Events, gen.EventDef{Type: "signal", Ref: fmt.Sprintf("s%d", i)})
	}
	t := g.Add(gen.Task, "t", "")
	e := g.Add(gen.End, "end", "")
	g.Connect(s, t, nil)
	g.Connect(t, e, nil)
	defs, _, err := step.Parse(g)
	if err != nil {
		v.Inconclusive("parse", "%v", err)
		return
	}
	cls := fmt.Sprintf("model-parallel-defs=%d", c.Defs)
	n := 0
	run := func(hist []int) bool {
		n++
		ctx, cancel := context.WithCancel(context.Background())
		defer cancel()
		m, err := model.New(defs, model.WithContext(ctx))
		if err != nil {
			v.Violate("model-new-error", cls, "%v", err)
			return false
		}
		if err := m.Run(ctx); err != nil {
			v.Violate("model-run-error", cls, "%v", err)
			return false
		}
		proc, found := m.FindProcessBy(func(p *bpmn.Process) bool { return true })
		if !found {
			v.Inconclusive("setup", "process not found")
			return false
		}
		rec := &c14Recorder{}
		proc.RegisterEventConsumer(rec)
		kind := map[event.IEvent]int{}
		replayed := map[event.IEvent]bool{}
		counts := make([]int, c.Defs)
		fired := 0
		for i, k := range hist {
			ev := c14Ev(k, c.Defs)
			kind[ev] = k
			before := len(rec.seen)
			if _, err := m.ConsumeEvent(ev); err != nil {
				v.Violate("model-consume-error", cls, "history %v step %d: %v", hist, i, err)
				return false
			}
			got := rec.seen[before:]
			var replay []event.IEvent
			for _, x := range got {
				if x != ev {
					replay = append(replay, x)
				}
			}
			if k < c.Defs {
				counts[k]++
			}
			least, equal := counts[0], true
			for _, x := range counts {
				least = min(least, x)
				equal = equal && x == counts[0]
			}
			if len(replay) > 0 {
				fired++
			}
			if fired > least {
				v.Violate("model-fired-too-often", cls, "history %v: after step %d the start-event consumer has replayed %d sets, the least-matched definition was matched %d times (counts %v)", hist, i, fired, least, counts)
				return false
			}
			if equal && fired != counts[0] {
				v.Violate("model-fired-count-mismatch", cls, "history %v: after step %d every definition has been matched exactly %d times but %d sets were replayed", hist, i, counts[0], fired)
				return false
			}
			if len(replay) > 0 && k >= c.Defs {
				v.Violate("model-nonmatching-effect", cls, "history %v: a non-matching event at step %d made the start-event consumer replay a set", hist, i)
				return false
			}
			if len(replay) == 0 {
				continue
			}
			per := map[int]int{}
			for _, x := range replay {
				kk, known := kind[x]
				if !known || replayed[x] {
					v.Violate("model-replay-wrong-event", cls, "history %v: at step %d an event was replayed that was never delivered or had been replayed before", hist, i)
					return false
				}
				replayed[x] = true
				per[kk]++
			}
			ok := len(replay) == c.Defs-1
			for d := 0; d < c.Defs; d++ {
				want := 1
				if d == k {
					want = 0
				}
				if per[d] != want {
					ok = false
				}
			}
			if !ok {
				v.Violate("model-replay-set", cls, "history %v: the set completed at step %d (by event %d) was replayed as %v events per definition, expected exactly one buffered event of every other definition", hist, i, k, per)
				return false
			}
		}
		return true
	}
	var rec func(h []int) bool
	rec = func(h []int) bool {
		if len(h) > 0 && !run(h) {
			return false
		}
		if len(h) == c.MaxLen {
			return true
		}
		for e := 0; e <= c.Defs; e++ {
			if !rec(append(append([]int(nil), h...), e)) {
				return false
			}
		}
		return true
	}
	rec(append([]int(nil), c.Prefix...))
	v.Add("histories", n)
}

func init() {
	fw.Register(&fw.Prop{
		ID:    "C14",
		Cases: c14Cases,
		Run: func(c fw.Case, env *fw.Env) *fw.V {
			v := fw.NewV(c)
			var cc c14Case
			if err := json.Unmarshal(c.Desc, &cc); err != nil {
				v.Inconclusive("descriptor", "%v", err)
				return v
			}
			if cc.Level == "mixed" {
				c14Mixed(&cc, v)
				v.Nontrivial = v.Stats["histories"] > 1
			} else if cc.Level == "model" {
				c14Model(&cc, v)
				v.Nontrivial = v.Stats["histories"] > 1
			} else if cc.Level == "satisfier" {
				c14Satisfier(&cc, v)
				v.Nontrivial = v.Stats["histories"] > 1
			} else if cc.Level == "process2" {
				c14Process2(&cc, env, v)
				v.Nontrivial = true
			} else {
				c14Process(&cc, env, v)
				v.Nontrivial = true
			}
			return v
		},
		Rule:       "satisfier level: CatchEventSatisfier (parallel-multiple and plain) and ThrowEventSatisfier driven directly with ALL event histories up to length 7 (quick) / 9 (thorough) over 1..4 signal definitions plus one non-matching event, each history on fresh satisfiers, counters checked at every prefix (fired <= least-matched count, fired == k when all matched k times, non-matching events change no later result - checked against a twin fed with the stripped history); process level: a (parallel-)multiple intermediate catch event with 1..3 definitions, all histories up to length 4/5, downstream request counted at quiescent points; the same with two activations (a second token is sent to the same catch event at a point the history chooses, events also arrive while no token waits: they must not count for the later token; a firing releases every waiting token), all histories up to length 5/6; mixed level: a catch event with a signal, a message and a never-matchable (unconfigured) timer definition built by the timer+wrapping chain, all histories up to length 6 (parallel-multiple: never fires; plain: fires on every matching event); model level: a parallel-multiple start event (2..3 signal definitions) inside model.Model, all histories up to length 8 / 9: the start-event consumer never replays more sets than the least-matched definition was matched, exactly k when all were matched k times, and a completed set is replayed as one buffered event of every other definition, none twice; a case = one shard of the enumeration (non-trivial when it contains > 1 history); distinct = descriptor hash; evidence 'measured.histories' is the number of histories executed",
		Exhaustive: func(string) bool { return true },
		Assumptions: []string{"the model-level oracle is the statement's counting rule plus: a completed set is replayed as one buffered event of every other definition, none twice"},
		Batch:       4,
	})
}

var _ = strings.Join
