package props

import (
	"encoding/json"
	"fmt"
	"strings"

	"verif/internal/fw"
	"verif/internal/mon"
	"verif/internal/step"
)

// runStep decodes a step.Case and runs it in the mode it names.
func runStep(prop string, c fw.Case, env *fw.Env, post func(sc *step.Case, r *step.Result, v *fw.V)) *fw.V {
	v := fw.NewV(c)
	var sc step.Case
	if err := json.Unmarshal(c.Desc, &sc); err != nil {
		v.Inconclusive("descriptor", "%v", err)
		return v
	}
	var r *step.Result
	if sc.Storm {
		reps := sc.Reps
		if reps == 0 {
			reps = 1
		}
		for i := 0; i < reps && !v.Violated(); i++ {
			fw.Rep(env, i, func(env *fw.Env) {
				r = step.RunStorm(prop, &sc, env, v)
				v.Add("storm-runs", 1)
				if post != nil && r != nil && !r.Aborted {
					post(&sc, r, v)
				}
			})
		}
		v.Nontrivial = true
	} else {
		r = step.RunStepwise(prop, &sc, env, v)
		v.Nontrivial = step.Nontrivial(&sc)
		if post != nil && r != nil && !r.Aborted {
			post(&sc, r, v)
		}
		v.AddSig("order:" + strings.Join(sc.Order, ","))
	}
	if sc.Family != "" {
		for i := range v.Findings {
			f := &v.Findings[i]
			if f.Status == fw.Violation && f.Class != sc.Family {
				f.Msg = "[" + f.Class + "] " + f.Msg
				f.Class = sc.Family
			}
			// families with recorded defects of the inclusive gateway: every way of
			// diverging from the reference token game is one finding (the defects show
			// as missing, extra or duplicated requests depending on the program)
			if f.Status == fw.Violation && strings.HasPrefix(sc.Family, "with-inclusive") && divergence(f.Rule) {
				f.Msg = "[" + f.Rule + "] " + f.Msg
				f.Rule = "diverges-from-reference"
			}
		}
	}
	if r != nil {
		v.Add("steps", r.Steps)
		if r.Inst != nil {
			v.Observed = map[string]any{"requests": len(r.Inst.Reqs()), "traces": len(r.Inst.Log(0)), "complete": r.Complete}
		}
	}
	return v
}

// conservation checks NewFlow - Termination == 0 once the model is complete
// (only meaningful for graphs without sub-processes, whose inner terminations
// are not relayed).
func conservation(sc *step.Case, r *step.Result, v *fw.V) {
	if !r.Complete || r.Inst == nil {
		return
	}
	n, t := mon.Conservation(r.Inst.Log(0))
	if n != t {
		v.Violate("token-conservation", "flows", "%d flows created but %d terminated at completion", n, t)
	}
}

func divergence(rule string) bool {
	for _, p := range []string{"pending-", "ends-", "storm-", "not-complete", "waiter-blocked", "noflow-error-", "vars-mismatch", "early-", "cease-count", "token-conservation", "condition-error-trace-missing",
		// (where the engine's token game differs from the reference's, a loop around the diverging gateways runs
		// another number of times, and with it a condition in it that cannot be evaluated)
		"unexpected-error-trace"} {
		if strings.HasPrefix(rule, p) {
			return true
		}
	}
	return false
}

func sprintf(f string, a ...any) string { return fmt.Sprintf(f, a...) }
