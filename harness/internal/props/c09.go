package props

import (
	"context"
	"encoding/json"
	"fmt"
	"runtime"
	"strings"
	"sync"
	"sync/atomic"
	"time"

	"github.com/olive-io/bpmn/v2/pkg/tracing"

	"verif/internal/drive"
	"verif/internal/fw"
	"verif/internal/gen"
	"verif/internal/perturb"
	"verif/internal/quiesce"
	"verif/internal/step"
)

type c09Joiner struct {
	After int `json:"after"` // subscribes after the reference subscriber saw this many traces
	Read  int `json:"read"`  // reads this many traces, then unsubscribes
	Buf   int `json:"buf"`
	Pace  int `json:"pace"` // 0 none, 1 yield, 2 sleep 50us
}

type c09Case struct {
	Name    string      `json:"name"`
	Level   string      `json:"level"` // tracer | engine
	Senders int         `json:"senders"`
	Sends   int         `json:"sends"`
	Joiners []c09Joiner `json:"joiners"`
	Hooks   float64     `json:"hooks"`
	Procs   int         `json:"procs"`
	// Cancel: the tracer's context is cancelled once the reference subscriber has seen CancelAt traces; the
	// registered senders go on and finish: everything they send must still be delivered before the channels close
	Cancel   bool `json:"cancel,omitempty"`
	CancelAt int  `json:"cancel_at,omitempty"`
	// Slow: permanent subscribers with a small buffer and a paced reader (keep the tracer's loop busy); they must
	// observe exactly the reference sequence
	Slow int `json:"slow,omitempty"`
	// generations level: Gens groups of senders come and go one after the other (between two of them no sender
	// is registered at all); the tracer's context is cancelled while the last group is registered (CancelAt = how
	// many of its traces are sent before the cancellation) and the group goes on sending and then finishes
	Gens  int  `json:"gens,omitempty"`
	Relay bool `json:"relay,omitempty"` // each generation sends through an inner tracer of its own and a relay
	// engine level
	AST   *gen.Block       `json:"ast,omitempty"`
	Vars  map[string]int64 `json:"vars,omitempty"`
	Order []string         `json:"order,omitempty"`
	// engine level: the goroutine making the DelayNth hit of DelaySite pauses 300 us
	DelaySite string `json:"delay_site,omitempty"`
	DelayNth  int    `json:"delay_nth,omitempty"`
}

// c09Forks: activities whose flow action takes several sequence flows, the first of them not taken
func c09Forks() []c01Prog {
	f, tr := &gen.Cond{Kind: "const", Lit: false}, &gen.Cond{Kind: "const", Lit: true}
	mk := func(name string, conds ...*gen.Cond) c01Prog {
		b := &gen.Block{Kind: "condtask", Default: -1, Conds: conds}
		for range conds {
			b.Kids = append(b.Kids, gen.T())
		}
		return c01Prog{Name: "fork:" + name, AST: gen.Seq(gen.T(), b), NV: 1, Family: "fork:" + name}
	}
	return []c01Prog{
		mk("first-false", f, nil, tr, tr),
		mk("first-taken", nil, tr, f, tr),
		mk("two-false", f, f, nil, tr),
		{Name: "fork:and4", AST: gen.Seq(gen.T(), &gen.Block{Kind: "and", Default: -1, Kids: []*gen.Block{gen.T(), gen.T(), gen.T(), gen.T()}}, gen.T()), NV: 1, Family: "fork:and4"},
	}
}

type c09Trace struct {
	Sender, N int
}

func (t c09Trace) Unpack() any { return t }

func c09Cases(tier string, seed uint64) []fw.Case {
	rng := fw.NewRng(seed, "C09")
	n := 300
	if tier == "thorough" {
		n = 6000
	}
	var cs []fw.Case
	bufs := []int{0, 1, 10, 1000}
	for i := 0; i < n; i++ {
		c := c09Case{Level: "tracer", Senders: 1 + rng.Intn(8), Sends: 200, Hooks: []float64{0, 0.2, 0.5}[rng.Intn(3)], Procs: []int{1, 2, 4, 8}[rng.Intn(4)]}
		nj := rng.Intn(4)
		total := c.Senders * c.Sends
		for j := 0; j < nj; j++ {
			c.Joiners = append(c.Joiners, c09Joiner{After: rng.Intn(total), Read: rng.Intn(total / 2), Buf: bufs[rng.Intn(4)], Pace: rng.Intn(3)})
		}
		if i%3 == 1 {
			c.Slow = 1 + rng.Intn(2)
			c.Sends = 60 // paced readers: keep the run short
			total = c.Senders * c.Sends
			for j := range c.Joiners {
				c.Joiners[j].After = rng.Intn(total)
				c.Joiners[j].Read = rng.Intn(total / 2)
			}
		}
		if i%2 == 1 {
			c.Cancel, c.CancelAt = true, rng.Intn(total+1)
		}
		c.Name = fmt.Sprintf("tracer/%d", i)
		cs = append(cs, fw.MkCase("tracer", &c))
	}
	// crowded tracer: 4..6 joiners with tiny buffers that come and go close to each other while 1..2 slow
	// permanent subscribers keep the broadcast blocked: leavers at every list position relative to the
	// subscriber the tracer is blocked on
	for i := 0; i < n/3; i++ {
		c := c09Case{Level: "tracer", Senders: 1 + rng.Intn(3), Sends: 60, Hooks: []float64{0, 0.3}[rng.Intn(2)], Procs: []int{2, 4, 8}[rng.Intn(3)], Slow: 1 + rng.Intn(2)}
		total := c.Senders * c.Sends
		nj := 4 + rng.Intn(3)
		base := rng.Intn(total / 2)
		for j := 0; j < nj; j++ {
			c.Joiners = append(c.Joiners, c09Joiner{After: base + rng.Intn(10), Read: 1 + rng.Intn(12), Buf: []int{0, 0, 1, 2}[rng.Intn(4)], Pace: rng.Intn(3)})
		}
		c.Name = fmt.Sprintf("tracer-crowd/%d", i)
		cs = append(cs, fw.MkCase("tracer", &c))
	}
	// generations of senders on one tracer (a tracer shared by instances that come and go, a sub-process tracer
	// entered again): the sender count returns to zero in between, the last generation is cut by a cancellation
	for gens := 1; gens <= 4; gens++ {
		for _, senders := range []int{1, 3} {
			for _, at := range []int{0, 2, 5} {
				for _, relay := range []bool{false, true} {
					c := c09Case{Level: "generations", Gens: gens, Senders: senders, Sends: 5, Cancel: true, CancelAt: at, Relay: relay, Procs: []int{1, 4}[(gens+at)%2]}
					c.Name = fmt.Sprintf("generations/g%d-s%d-cancel@%d-relay=%v", gens, senders, at, relay)
					cs = append(cs, fw.MkCase("generations", &c))
				}
			}
		}
	}
	// senders registering while a cancelled tracer is being released by its last sender
	for _, procs := range []int{2, 8} {
		c := c09Case{Level: "drain", Senders: 2, Sends: 300, Procs: procs}
		if tier == "thorough" {
			c.Sends = 3000
		}
		c.Name = fmt.Sprintf("drain/p%d", procs)
		cs = append(cs, fw.MkCase("drain", &c))
	}
	// engine level: grammar + same order on generated programs
	progs := forcedPairs(rng)
	nr := 30
	if tier == "thorough" {
		nr = 300
	}
	progs = append(progs, randomProgs(rng, nr, 3, 12)...)
	for _, p := range progs {
		g := gen.Lower("p", p.AST)
		vars := zeroData(assignments(p.NV, 1, rng)[0], p.AST)
		base := step.Case{G: g, Vars: vars, Lenient: hasOr(g)}
		orders, _ := step.Orders(&base, 2, rng)
		for oi, o := range orders {
			if oi >= 2 {
				break
			}
			c := c09Case{Level: "engine", AST: p.AST, Vars: vars, Order: o, Hooks: []float64{0, 0.3}[oi%2]}
			c.Name = fmt.Sprintf("engine/%s/o%d", p.Name, oi)
			cs = append(cs, fw.MkCase("engine", &c))
		}
	}
	// engine level with a deterministic schedule perturbation around the points where flows are created
	nths := []int{1, 2, 3}
	if tier == "thorough" {
		nths = []int{1, 2, 3, 4, 5, 6, 8}
	}
	dprogs := append(c09Forks(), forcedPairs(fw.NewRng(seed, "C09d"))...)
	for _, p := range dprogs {
		g := gen.Lower("p", p.AST)
		vars := zeroData(assignments(p.NV, 1, rng)[0], p.AST)
		base := step.Case{G: g, Vars: vars, Lenient: hasOr(g)}
		orders, _ := step.Orders(&base, 1, rng)
		if len(orders) == 0 {
			continue
		}
		for _, site := range []string{"flow.fork", "flow.action", "flow.loop", "tracer.send", "tracer.bcast"} {
			for _, nth := range nths {
				c := c09Case{Level: "engine", AST: p.AST, Vars: vars, Order: orders[0], DelaySite: site, DelayNth: nth}
				c.Name = fmt.Sprintf("engine-delay/%s/%s#%d", p.Name, site, nth)
				cs = append(cs, fw.MkCase("engine-delay", &c))
			}
		}
	}
	return fw.Number(cs)
}

type c09Rec struct {
	T   c09Trace
	Seq int64
}

func c09Tracer(c *c09Case, env *fw.Env, v *fw.V) {
	if c.Procs > 0 {
		defer runtime.GOMAXPROCS(runtime.GOMAXPROCS(c.Procs))
	}
	if c.Hooks > 0 {
		perturb.ConfigureSites(map[string]float64{"tracer.send": c.Hooks, "tracer.bcast": c.Hooks, "tracer.sub": c.Hooks, "tracer.unsub": c.Hooks}, 100)
	} else {
		perturb.Off()
	}
	ctx, cancel := context.WithCancel(context.Background())
	tr := tracing.NewTracer(ctx)
	total := c.Senders * c.Sends
	// reference subscriber
	refCh := tr.SubscribeChannel(make(chan tracing.ITrace, total+16))
	var mu sync.Mutex
	var ref []c09Rec
	refSeen := make(chan int, total+16)
	var refClosed atomic.Bool
	go func() {
		for t := range refCh {
			mu.Lock()
			ref = append(ref, c09Rec{T: t.(c09Trace), Seq: drive.Seq.Add(1)})
			n := len(ref)
			mu.Unlock()
			refSeen <- n
		}
		refClosed.Store(true)
	}()
	slow := make([][]c09Trace, c.Slow)
	slowClosed := make([]atomic.Bool, c.Slow)
	for k := 0; k < c.Slow; k++ {
		ch := tr.SubscribeChannel(make(chan tracing.ITrace, k))
		go func(k int) {
			for t := range ch {
				slow[k] = append(slow[k], t.(c09Trace))
				if k == 0 {
					time.Sleep(20 * time.Microsecond)
				} else {
					runtime.Gosched()
				}
			}
			slowClosed[k].Store(true)
		}(k)
	}
	// send call sequence numbers
	sendCall := make([][]int64, c.Senders)
	for i := range sendCall {
		sendCall[i] = make([]int64, c.Sends)
	}
	type jres struct {
		subSeq   int64
		a, b     []c09Trace
		late     []c09Trace
		unsubbed bool
	}
	jr := make([]*jres, len(c.Joiners))
	stop := make(chan struct{})
	var jwg sync.WaitGroup
	trigger := make([]chan struct{}, len(c.Joiners))
	chans := make([]chan tracing.ITrace, len(c.Joiners))
	for j, jn := range c.Joiners {
		jr[j] = &jres{}
		trigger[j] = make(chan struct{})
		jwg.Add(1)
		go func(j int, jn c09Joiner) {
			defer jwg.Done()
			<-trigger[j]
			ch := make(chan tracing.ITrace, jn.Buf)
			chans[j] = ch
			tr.SubscribeChannel(ch)
			jr[j].subSeq = drive.Seq.Add(1)
		read:
			for len(jr[j].a) < jn.Read {
				select {
				case t, ok := <-ch:
					if !ok {
						break read // the tracer terminated and closed the channel
					}
					jr[j].a = append(jr[j].a, t.(c09Trace))
					switch jn.Pace {
					case 1:
						runtime.Gosched()
					case 2:
						time.Sleep(50 * time.Microsecond)
					}
				case <-stop:
					break read
				}
			}
			tr.Unsubscribe(ch)
			jr[j].unsubbed = true
			for {
				select {
				case t, ok := <-ch:
					if ok {
						jr[j].b = append(jr[j].b, t.(c09Trace))
						continue
					}
				default:
				}
				break
			}
		}(j, jn)
	}
	// dispatcher: releases joiners when the reference subscriber has seen enough
	go func() {
		released := make([]bool, len(c.Joiners))
		check := func(n int) {
			for j, jn := range c.Joiners {
				if !released[j] && n >= jn.After {
					released[j] = true
					close(trigger[j])
				}
			}
		}
		cancelled := false
		maybeCancel := func(n int) {
			if c.Cancel && !cancelled && n >= c.CancelAt {
				cancelled = true
				cancel()
			}
		}
		check(0)
		maybeCancel(0)
		for n := range refSeen {
			check(n)
			maybeCancel(n)
			if n == total {
				return
			}
		}
	}()
	var swg sync.WaitGroup
	barrier := make(chan struct{})
	for s := 0; s < c.Senders; s++ {
		swg.Add(1)
		h := tr.RegisterSender()
		go func(s int) {
			defer swg.Done()
			defer h.Done()
			<-barrier
			for n := 0; n < c.Sends; n++ {
				sendCall[s][n] = drive.Seq.Add(1)
				tr.Send(c09Trace{Sender: s, N: n})
			}
		}(s)
	}
	close(barrier)
	// wait until everything that can happen has happened
	q := quiesce.Wait(env.Label, 20*time.Second, func() bool { return len(refCh) == 0 })
	v.Add("qpoints", 1)
	if !q.Quiescent {
		v.Inconclusive("watchdog", "no quiescent point: %v", quiesce.Summary(q.Gs))
		cancel()
		return
	}
	// deadlock: senders or subscribers blocked with work left
	mu.Lock()
	nref := len(ref)
	mu.Unlock()
	cls := fmt.Sprintf("senders=%d-joiners=%d", min(c.Senders, 2), min(len(c.Joiners), 2))
	if nref != total {
		if len(quiesce.DriverIn(q.Gs, "tracer).Send")) == 0 {
			v.Violate("dropped", cls+fmt.Sprintf("-cancelled=%v", c.Cancel), "every Send of the registered senders returned but the reference subscriber received only %d of %d traces (context cancelled after %d: %v)", nref, total, c.CancelAt, c.Cancel)
		} else {
			v.Violate("deadlock", cls, "all goroutines blocked but the reference subscriber received %d of %d traces; blocked: %v", nref, total, quiesce.Summary(q.Gs))
		}
		cancel()
		return
	}
	close(stop)
	q = quiesce.Wait(env.Label, 20*time.Second, nil)
	if !q.Quiescent {
		v.Inconclusive("watchdog", "no quiescent point after stop")
		cancel()
		return
	}
	for j := range c.Joiners {
		if !jr[j].unsubbed {
			v.Violate("unsubscribe-blocked", cls, "joiner %d: Unsubscribe did not return; blocked: %v", j, quiesce.Summary(quiesce.DriverIn(q.Gs, "Unsubscribe")))
			cancel()
			return
		}
	}
	swg.Wait()
	jwg.Wait()
	// reference order: every trace exactly once, per-sender program order
	pos := map[c09Trace]int{}
	last := make([]int, c.Senders)
	for i := range last {
		last[i] = -1
	}
	for i, r := range ref {
		if _, dup := pos[r.T]; dup {
			v.Violate("duplicated", cls, "trace %v delivered twice to one subscriber", r.T)
			cancel()
			return
		}
		pos[r.T] = i
		if r.T.N != last[r.T.Sender]+1 {
			v.Violate("sender-order", cls, "sender %d: trace %d delivered after %d", r.T.Sender, r.T.N, last[r.T.Sender])
			cancel()
			return
		}
		last[r.T.Sender] = r.T.N
	}
	// joiners
	for j := range c.Joiners {
		r := jr[j]
		contiguous := func(name string, ts []c09Trace) (int, int, bool) {
			if len(ts) == 0 {
				return -1, -1, true
			}
			first := pos[ts[0]]
			for k, t := range ts {
				p, ok := pos[t]
				if !ok || p != first+k {
					v.Violate("gap-or-reorder", cls, "joiner %d %s: element %d is %v (reference position %d), expected reference position %d — dropped, duplicated or reordered", j, name, k, t, p, first+k)
					return 0, 0, false
				}
			}
			return first, first + len(ts) - 1, true
		}
		a0, a1, ok := contiguous("before unsubscribing", r.a)
		if !ok {
			break
		}
		b0, _, ok := contiguous("left in the buffer after Unsubscribe", r.b)
		if !ok {
			break
		}
		if len(r.a) > 0 && len(r.b) > 0 && b0 <= a1 {
			v.Violate("gap-or-reorder", cls, "joiner %d: buffer leftovers start at reference position %d, not after what was read (%d)", j, b0, a1)
			break
		}
		// must not miss a trace whose Send began after SubscribeChannel returned
		if len(r.a) > 0 {
			for i := 0; i < a0; i++ {
				t := ref[i].T
				if sendCall[t.Sender][t.N] > r.subSeq {
					v.Violate("missed-after-subscribe", cls, "joiner %d: trace %v was sent (call seq %d) after SubscribeChannel returned (seq %d) but was not delivered; first delivered reference position %d", j, t, sendCall[t.Sender][t.N], r.subSeq, a0)
					break
				}
			}
		}
		// nothing may arrive after Unsubscribe returned and the buffer was drained
		if ch := chans[j]; ch != nil && len(ch) > 0 {
			v.Violate("delivered-after-unsubscribe", cls, "joiner %d: %d trace(s) arrived on the channel after Unsubscribe returned", j, len(ch))
		}
		v.Add("joiner-traces", len(r.a)+len(r.b))
	}
	v.Add("traces", total)
	// permanent slow subscribers: exactly the reference sequence
	cancel()
	q = quiesce.Wait(env.Label, 20*time.Second, nil)
	if !q.Quiescent {
		v.Inconclusive("watchdog", "no quiescent point after cancelling the tracer")
		return
	}
	select {
	case <-tr.Done():
	default:
		v.Violate("not-terminated", cls, "context cancelled and every registered sender done, but the tracer has not terminated; blocked: %v", quiesce.Summary(q.Gs))
		return
	}
	if !refClosed.Load() {
		v.Violate("subscriber-not-closed", cls, "tracer terminated but the reference subscriber's channel was not closed")
	}
	for k := range slow {
		if !slowClosed[k].Load() {
			v.Violate("subscriber-not-closed", cls, "tracer terminated but permanent subscriber %d's channel was not closed", k)
			continue
		}
		if len(slow[k]) != len(ref) {
			v.Violate("subscribers-differ", cls, "permanent subscriber %d (buffer %d) received %d traces, the reference subscriber %d", k, k, len(slow[k]), len(ref))
			continue
		}
		for i := range ref {
			if slow[k][i] != ref[i].T {
				v.Violate("subscribers-differ", cls, "permanent subscriber %d: position %d is %v, the reference subscriber saw %v", k, i, slow[k][i], ref[i].T)
				break
			}
		}
		v.Add("slow-subscriber-traces", len(slow[k]))
	}
}

// c09Generations: see c09Case.Gens. Everything a registered sender sends before it is done must reach the
// subscriber, in order, before the tracer closes the channel - also after the tracer's context was cancelled,
// and also when earlier generations of senders have come and gone.
func c09Generations(c *c09Case, env *fw.Env, v *fw.V) {
	if c.Procs > 0 {
		defer runtime.GOMAXPROCS(runtime.GOMAXPROCS(c.Procs))
	}
	perturb.Off()
	cls := fmt.Sprintf("generations-relay=%v", c.Relay)
	ctx, cancel := context.WithCancel(context.Background())
	defer cancel()
	tr := tracing.NewTracer(ctx)
	sub := tr.SubscribeChannel(make(chan tracing.ITrace, c.Gens*c.Senders*c.Sends+16))
	var want, got []c09Trace
	closed := false
	type src struct {
		send func(tracing.ITrace)
		done func()
	}
	blocked := func(what string, f func()) bool {
		ch := make(chan struct{})
		go func() { f(); close(ch) }()
		select {
		case <-ch:
			return false
		case <-time.After(step.Watchdog):
			v.Inconclusive("watchdog", "%s did not return", what)
			return true
		}
	}
	for g := 0; g < c.Gens; g++ {
		last := g == c.Gens-1
		// the generation's senders
		var srcs []src
		var innerCancel context.CancelFunc
		var inner tracing.ITracer
		if c.Relay {
			var ictx context.Context
			ictx, innerCancel = context.WithCancel(context.Background())
			inner = tracing.NewTracer(ictx)
			tracing.NewRelay(ictx, inner, tr, func(t tracing.ITrace) []tracing.ITrace { return []tracing.ITrace{t} })
			for k := 0; k < c.Senders; k++ {
				h := inner.RegisterSender()
				srcs = append(srcs, src{send: inner.Send, done: h.Done})
			}
		} else {
			for k := 0; k < c.Senders; k++ {
				h := tr.RegisterSender()
				srcs = append(srcs, src{send: tr.Send, done: h.Done})
			}
		}
		for i := 0; i < c.Sends; i++ {
			if last && i == c.CancelAt {
				cancel()
			}
			for k := range srcs {
				t := c09Trace{Sender: g*8 + k, N: i}
				want = append(want, t)
				if blocked(fmt.Sprintf("Send of generation %d", g), func() { srcs[k].send(t) }) {
					return
				}
			}
		}
		if last && c.CancelAt >= c.Sends {
			cancel()
		}
		// everything sent so far has been handed to a registered sender's tracer: it must arrive (through the
		// relay too) before anything is torn down; a channel closed before that has dropped traces
		for len(got) < len(want) && !closed {
			select {
			case t, ok := <-sub:
				if !ok {
					closed = true
				} else {
					got = append(got, t.(c09Trace))
				}
			case <-time.After(step.Watchdog):
				v.Inconclusive("watchdog", "generation %d: %d of %d traces arrived and the channel is still open", g, len(got), len(want))
				return
			}
		}
		if closed {
			break
		}
		for k := range srcs {
			srcs[k].done()
		}
		if c.Relay {
			// the inner tracer ends with its generation; its relay then releases the outer tracer
			innerCancel()
			select {
			case <-inner.Done():
			case <-time.After(step.Watchdog):
				v.Inconclusive("watchdog", "inner tracer of generation %d did not terminate", g)
				return
			}
		}
		if !last {
			// let the sender count settle at zero before the next generation registers
			time.Sleep(2 * time.Millisecond)
		}
	}
	if closed {
		v.Violate("dropped-at-termination", cls, "subscriber channel closed after %d of %d traces although the senders that sent them were registered and not done (%d generations of %d senders, cancellation after %d traces of the last one)", len(got), len(want), c.Gens, c.Senders, c.CancelAt)
		return
	}
	select {
	case <-tr.Done():
	case <-time.After(step.Watchdog):
		v.Violate("tracer-not-terminated", cls, "tracer did not terminate after its context was cancelled and every sender was done (generations %d)", c.Gens)
		return
	}
	deadline := time.After(step.Watchdog)
collect:
	for {
		select {
		case t, ok := <-sub:
			if !ok {
				closed = true
				break collect
			}
			got = append(got, t.(c09Trace))
		case <-deadline:
			break collect
		}
	}
	if !closed {
		v.Violate("channel-not-closed", cls, "subscriber channel not closed after the tracer terminated")
		return
	}
	v.Add("generation-traces", len(got))
	if len(got) != len(want) {
		missing := ""
		seen := map[c09Trace]bool{}
		for _, t := range got {
			seen[t] = true
		}
		for _, t := range want {
			if !seen[t] {
				missing = fmt.Sprintf("first missing: generation %d sender %d trace %d", t.Sender/8, t.Sender%8, t.N)
				break
			}
		}
		v.Violate("dropped-at-termination", cls, "%d of %d traces delivered before the channel was closed (%d generations of %d senders, cancellation after %d traces of the last one); %s", len(got), len(want), c.Gens, c.Senders, c.CancelAt, missing)
		return
	}
	// per-sender order
	lastN := map[int]int{}
	for _, t := range got {
		if n, ok := lastN[t.Sender]; ok && t.N != n+1 || !ok && t.N != 0 {
			v.Violate("sender-order", cls, "sender %d: trace %d delivered out of order", t.Sender, t.N)
			return
		}
		lastN[t.Sender] = t.N
	}
}

// c09Drain: c.Sends rounds of: a tracer with one registered sender is cancelled (it now waits for its senders);
// the sender finishes while other goroutines register and finish further senders at the same moment. Whatever
// the tracer makes of the late comers (it may or may not wait for them), nothing may panic or block, and the
// tracer terminates and closes the subscriber's channel once every sender that was accepted is done.
func c09Drain(c *c09Case, env *fw.Env, v *fw.V) {
	if c.Procs > 0 {
		defer runtime.GOMAXPROCS(runtime.GOMAXPROCS(c.Procs))
	}
	perturb.Off()
	for round := 0; round < c.Sends; round++ {
		ctx, cancel := context.WithCancel(context.Background())
		tr := tracing.NewTracer(ctx)
		sub := tr.SubscribeChannel(make(chan tracing.ITrace, 4))
		h := tr.RegisterSender()
		cancel()
		// let the tracer notice the cancellation and start waiting for its sender (a few scheduler rounds)
		for i := 0; i < round%5; i++ {
			runtime.Gosched()
		}
		var wg sync.WaitGroup
		barrier := make(chan struct{})
		for k := 0; k < c.Senders; k++ {
			wg.Add(1)
			go func() {
				defer wg.Done()
				<-barrier
				for i := 0; i < 3; i++ {
					tr.RegisterSender().Done()
				}
			}()
		}
		wg.Add(1)
		go func() { defer wg.Done(); <-barrier; h.Done() }()
		close(barrier)
		done := make(chan struct{})
		go func() { wg.Wait(); close(done) }()
		select {
		case <-done:
		case <-time.After(step.Watchdog):
			v.Violate("sender-blocked", "drain", "round %d: RegisterSender / Done did not return while the cancelled tracer was being released", round)
			return
		}
		select {
		case <-tr.Done():
		case <-time.After(step.Watchdog):
			v.Violate("tracer-not-terminated", "drain", "round %d: the cancelled tracer did not terminate although every sender is done", round)
			return
		}
		select {
		case _, ok := <-sub:
			if ok {
				v.Violate("unexpected-trace", "drain", "round %d: a trace arrived although nothing was sent", round)
				return
			}
		case <-time.After(step.Watchdog):
			v.Violate("channel-not-closed", "drain", "round %d: subscriber channel not closed after the tracer terminated", round)
			return
		}
		v.Add("drain-rounds", 1)
	}
}

func c09Engine(c *c09Case, env *fw.Env, v *fw.V) {
	g := gen.Lower("p", c.AST)
	sc := step.Case{G: g, Vars: c.Vars, Order: c.Order, Lenient: hasOr(g), Hooks: c.Hooks, DelaySite: c.DelaySite, DelayNth: c.DelayNth, DelayUs: 300}
	tmp := fw.NewV(fw.Case{})
	r := step.RunStepwise("C09", &sc, env, tmp)
	// only the trace-stream rules count here; behavioural divergences are C01's business
	for _, f := range tmp.Findings {
		if f.Status == fw.Violation && strings.HasPrefix(f.Rule, "grammar-") {
			v.Violate(f.Rule, "engine", "%s", f.Msg)
		}
	}
	if r != nil && r.Inst != nil {
		v.Add("traces", len(r.Inst.Log(0)))
		v.Add("engine-runs", 1)
	}
	if v.Violated() {
		v.Log = tmp.Log
	}
}

func init() {
	fw.Register(&fw.Prop{
		ID:    "C09",
		Cases: c09Cases,
		Run: func(c fw.Case, env *fw.Env) *fw.V {
			v := fw.NewV(c)
			var cc c09Case
			if err := json.Unmarshal(c.Desc, &cc); err != nil {
				v.Inconclusive("descriptor", "%v", err)
				return v
			}
			if cc.Level == "tracer" {
				c09Tracer(&cc, env, v)
				v.Nontrivial = cc.Senders > 1 || len(cc.Joiners) > 0
			} else if cc.Level == "drain" {
				c09Drain(&cc, env, v)
				v.Nontrivial = true
			} else if cc.Level == "generations" {
				c09Generations(&cc, env, v)
				v.Nontrivial = true
			} else {
				c09Engine(&cc, env, v)
				v.Nontrivial = true
			}
			return v
		},
		Rule:        "tracer level: PRNG histories with 1..8 senders x 200 uniquely numbered traces, a permanent reference subscriber, 0..2 permanent slow subscribers (buffer 0/1, paced readers; must see exactly the reference sequence), optional cancellation of the tracer's context at a PRNG point while the registered senders go on (everything they send must still be delivered, then the tracer terminates and closes every channel), plus 0..3 joiners that subscribe at a PRNG point, read a PRNG number of traces (pacing none/yield/50us, buffer 0/1/10/1000) and unsubscribe; crowded variants (4..6 joiners with buffers 0..2 coming and going within a few traces of each other next to 1..2 slow permanent subscribers); GOMAXPROCS 1/2/4/8; hooks in Send/broadcast/Subscribe/Unsubscribe; offline checks: reference sequence is a permutation respecting each sender's order, each joiner's reads and its buffer leftovers are contiguous blocks of the reference order in the right order, nothing sent after Subscribe returned is missed, nothing arrives after Unsubscribe returned, no deadlock at the quiescent point; generations: 1..4 groups of 1 / 3 senders come and go one after the other on one tracer (directly or through an inner tracer and a relay each; the sender count returns to zero in between), the context is cancelled before / in the middle of / after the last group's 5 traces and the group finishes: every trace delivered in sender order, then the tracer terminates and closes the channel; drain: 300 / 3000 rounds of a cancelled tracer whose last sender finishes while two goroutines register and finish further senders at the same moment (no panic, nothing blocked, the tracer terminates and closes the channel); engine level: generated programs run stepwise with two subscribers (also with the goroutine making the n-th hit of flow.fork / flow.action / flow.loop / tracer.send / tracer.bcast paused 300 us, on the nesting pairs and on activities whose flow action takes several sequence flows with the first one not taken), causal grammar (flow trace before NewFlow of the flows it announces, visit before leave, termination last) and identical order for both subscribers; non-trivial = > 1 sender or >= 1 joiner (tracer) / any engine run; distinct = descriptor hash",
		Assumptions: []string{"subscribers honour the documented contract: they keep reading until they unsubscribe", "unsubscribing a channel twice is not exercised"},
	})
}
