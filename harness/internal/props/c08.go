package props

import (
	"reflect"
	"encoding/json"
	"errors"
	"fmt"
	"sync"
	"time"

	"github.com/anishathalye/porcupine"
	bpmn "github.com/olive-io/bpmn/v2"

	"verif/internal/drive"
	"verif/internal/fw"
	"verif/internal/gen"
	"verif/internal/perturb"
	"verif/internal/quiesce"
	"verif/internal/step"
)

type c08Case struct {
	Name    string `json:"name"`
	Kind    string `json:"kind"`    // first-wins | errors
	NDo     int    `json:"ndo"`     // number of Do calls on the request
	Conc    bool   `json:"conc"`    // concurrent (behind a barrier) or sequential
	Payload string `json:"payload"` // results | objects | both
	Names   string `json:"names"`   // declared | undeclared | mixed
	Handler string `json:"handler"` // none | skip | exit | retry
	Retries int    `json:"retries"` // handler.Retries
	Seq     []int  `json:"seq,omitempty"`    // retry: a budget of its own for every failing answer (the last one repeats)
	Second  int    `json:"second,omitempty"` // retry: once T succeeded, the next task on the same token always fails with this retry budget + 1 (0 = not exercised)
	Succeed int    `json:"succeed"` // attempt that succeeds (1-based); 0 = never
	Extra   bool   `json:"extra"`   // one more Do (with results) after the deciding one
	Reps    int    `json:"reps"`
	Hooks   bool   `json:"hooks"`
	// values: the catalogue of value kinds (C16's) answered as declared result / declared data output and read
	// back from the variables and from the next task's data inputs
	Route    string `json:"route,omitempty"`
	Loop     bool   `json:"loop,omitempty"` // object-input: A and B are passed three times, A storing another value each time
	From, To int    `json:",omitempty"`
}

// start -> T(writes r1,r2; output o1) -> X -(r1>0)-> NA | default -> NB ; NA,NB declare property r1 and data input o1
func c08Graph() *gen.Graph {
	g := gen.NewGraph("c08")
	s := g.Add(gen.Start, "start", "")
	t := g.Add(gen.Task, "T", "")
	t.Writes = []string{"r1", "r2"}
	t.Outputs = []string{"o1"}
	x := g.Add(gen.Xor, "X", "")
	na := g.Add(gen.Task, "NA", "")
	nb := g.Add(gen.Task, "NB", "")
	for _, n := range []*gen.Node{na, nb} {
		n.Props = []gen.PropItem{{Name: "r1", Type: "integer"}, {Name: "u1", Type: "integer"}}
		n.Inputs = []string{"o1", "uo"}
	}
	ea := g.Add(gen.End, "ea", "")
	eb := g.Add(gen.End, "eb", "")
	g.Connect(s, t, nil)
	g.Connect(t, x, nil)
	g.Connect(x, na, &gen.Cond{Kind: "var", Var: "r1", Op: ">", Val: 0})
	d := g.Connect(x, nb, nil)
	x.Default = d.ID
	g.Connect(na, ea, nil)
	g.Connect(nb, eb, nil)
	return g
}

// c08Inputs: what a request shows of earlier answers through its declared headers and properties. A task T in
// a loop stores the object hv = {u: value} (and the loop flag); the task N behind it declares header h1 {ref $hv.u,
// literal "lit"}, header h2 {literal only}, header h3 {ref only} and property p1 {ref $hv.u}. Per the engine's documented rule a header
// shows the text its reference resolves to and otherwise its literal value; the declarations belong to the
// model, not to the run: the k-th request of N depends on the k-th answer of T alone, and a second instance of
// the same definitions value starts from the literals.
func c08Inputs(c *c08Case, env *fw.Env, v *fw.V) {
	g := gen.NewGraph("c08i")
	s := g.Add(gen.Start, "start", "")
	xm := g.Add(gen.Xor, "xm", "")
	t := g.Add(gen.Task, "T", "")
	t.Writes = []string{"hv", "again"}
	n := g.Add(gen.Task, "N", "")
	n.Headers = []gen.PropItem{{Name: "h1", Ref: "$hv.u", Value: "lit"}, {Name: "h2", Value: "const"}, {Name: "h3", Ref: "$hv.u"}}
	n.Props = []gen.PropItem{{Name: "p1", Ref: "$hv.u"}, {Name: "pf", Ref: "$hv.u", Type: "float"}, {Name: "pi", Ref: "$hv.u", Type: "integer"}, {Name: "pb", Ref: "$hv.u", Type: "boolean"},
		{Name: "po", Ref: "$hv.u", Type: "object"}, {Name: "pa", Ref: "$hv.u", Type: "array"}}
	xs := g.Add(gen.Xor, "xs", "")
	e := g.Add(gen.End, "end", "")
	g.Connect(s, xm, nil)
	g.Connect(xm, t, nil)
	g.Connect(t, n, nil)
	g.Connect(n, xs, nil)
	g.Connect(xs, xm, &gen.Cond{Kind: "var", Var: "again", Op: ">", Val: 0})
	d := g.Connect(xs, e, nil)
	xs.Default = d.ID
	defs, _, err := step.Parse(g)
	if err != nil {
		v.Inconclusive("parse", "%v", err)
		return
	}
	perturb.Off()
	// the values T stores, round by round (c.Seq indexes this catalogue): texts, and things that are no text
	cat := []any{"text-a", 42, "text-b", true, "", 2.5, "text-c", 2.0, -3.0, 7, 1e6, false, 0.125,
		map[string]any{"k": "v", "n": 1.5, "in": map[string]any{"b": true}}, []any{1.5, "two", false}, map[string]any{}, []any{}}
	runInst := func(label string, seq []int) bool {
		in, err := drive.New(env.Label, defs, drive.Opts{Vars: map[string]any{"again": 0}})
		if err != nil {
			v.Violate("new-process-error", "inputs", "%v", err)
			return false
		}
		defer in.Cancel()
		if err := in.Start(); err != nil {
			v.Violate("start-error", "inputs", "%v", err)
			return false
		}
		quiet := func() bool {
			q := in.Quiesce(step.Watchdog)
			if !q.Quiescent {
				v.Inconclusive("watchdog", "no quiescent point: %v", quiesce.Summary(q.Gs))
				return false
			}
			return true
		}
		for round, ci := range seq {
			if !quiet() {
				return false
			}
			p := in.Pending()
			if len(p) != 1 || p[0].Act != "T" {
				v.Violate("continuation", "inputs", "%s round %d: pending %v, expected [T]", label, round, in.PendingActs())
				return false
			}
			again := 1
			if round == len(seq)-1 {
				again = 0
			}
			val := cat[ci%len(cat)]
			in.Answer(p[0], bpmn.DoWithResults(map[string]any{"hv": map[string]any{"u": val}, "again": again}))
			if !quiet() {
				return false
			}
			p = in.Pending()
			if len(p) != 1 || p[0].Act != "N" {
				v.Violate("continuation", "inputs", "%s round %d: pending %v, expected [N]", label, round, in.PendingActs())
				return false
			}
			text, isText := val.(string)
			want := map[string]string{"h1": "lit", "h2": "const", "h3": ""}
			if isText {
				want["h1"], want["h3"] = text, text
			}
			got := p[0].Trace.GetHeaders()
			for _, h := range []string{"h1", "h2", "h3"} {
				if got[h] != want[h] {
					v.Violate("header-value", "inputs-"+h, "%s round %d: T stored hv.u=%#v; the request of N shows header %s=%q, expected %q (a header shows the text its reference resolves to, otherwise its literal value); values stored in earlier rounds: %v", label, round, val, h, got[h], want[h], seq[:round])
					return false
				}
			}
			v.Add("header-reads", 3)
			// a property bound by reference to the stored member shows the value whenever the value is of the kind
			// the property declares (text, float, integer, boolean); other pairings are not demanded
			props := p[0].Trace.GetProperties()
			pname, pwant := "", any(nil)
			switch x := val.(type) {
			case string:
				pname, pwant = "p1", x
			case float64:
				pname, pwant = "pf", x
			case int:
				pname, pwant = "pi", int64(x)
			case bool:
				pname, pwant = "pb", x
			case map[string]any:
				pname, pwant = "po", x
			case []any:
				pname, pwant = "pa", x
			}
			if it, ok := props[pname]; !ok || it == nil || !reflect.DeepEqual(it.Value(), pwant) {
				var got any
				if ok && it != nil {
					got = it.Value()
				}
				v.Violate("property-value", "inputs-"+pname, "%s round %d: T stored hv.u=%#v; the request of N shows property %s=%#v, expected %#v (declared results are visible to later tasks); values stored in earlier rounds: %v", label, round, val, pname, got, pwant, seq[:round])
				return false
			}
			v.Add("property-reads", 1)
			in.Answer(p[0], bpmn.DoWithResults(nil))
		}
		return true
	}
	if !runInst("first instance", c.Seq) {
		return
	}
	// a second instance of the same definitions value, with hv never a text: literals only
	runInst("second instance of the same definitions", []int{1, 3})
}

// c08ObjInput: a data output stored by task A is what the data input of a later task B shows, whatever stands
// between them (Mid: "task" | "sub" = an embedded sub-process | "none") or elsewhere in the process (Side: a
// sub-process on a parallel branch), for data objects whose id equals their name and for others; A is answered a
// second time round a loop (Loop) with another value.
func c08ObjInput(c *c08Case, env *fw.Env, v *fw.V) {
	g := gen.NewGraph("c08o")
	name, id := "order", "order"
	if c.Names == "id-differs" {
		id = "DataObject_order"
	}
	g.Objects = []gen.DataObject{{ID: id, Name: name, Body: `{"v": 1}`}, {ID: "other", Name: "other", Body: `{"v": -1}`}}
	inRef := id
	if c.Names == "via-reference" {
		// B's data input names a data object reference, which stands for the data object A writes
		g.Objects = append(g.Objects, gen.DataObject{ID: "Ref_order", Name: "orderRef", RefOf: id})
		inRef = "Ref_order"
	}
	s := g.Add(gen.Start, "start", "")
	// inner-writer / inner-reader: the storing (reading) task lives inside an embedded sub-process W, the other
	// one in the process itself
	scopeA, scopeB := "", ""
	var w *gen.Node
	if c.Route == "inner-writer" || c.Route == "inner-reader" {
		w = g.Add(gen.Sub, "W", "")
		if c.Route == "inner-writer" {
			scopeA = "W"
		} else {
			scopeB = "W"
		}
	}
	a := g.Add(gen.Task, "A", scopeA)
	a.Outputs = []string{name + "=" + id}
	b := g.Add(gen.Task, "B", scopeB)
	b.Inputs = []string{name + "=" + inRef, "other=other"}
	b.Writes = []string{"again"}
	xm := g.Add(gen.Xor, "xm", "")
	xs := g.Add(gen.Xor, "xs", "")
	e := g.Add(gen.End, "end", "")
	g.Connect(s, xm, nil)
	prev := a
	if c.Route == "inner-writer" {
		ws := g.Add(gen.Start, "W_s", "W")
		we := g.Add(gen.End, "W_e", "W")
		g.Connect(ws, a, nil)
		g.Connect(a, we, nil)
		g.Connect(xm, w, nil)
		prev = w
	} else {
		g.Connect(xm, a, nil)
	}
	sub := func(idp string) *gen.Node {
		sp := g.Add(gen.Sub, idp, "")
		is := g.Add(gen.Start, idp+"_s", sp.ID)
		it := g.Add(gen.Task, idp+"_t", sp.ID)
		ie := g.Add(gen.End, idp+"_e", sp.ID)
		g.Connect(is, it, nil)
		g.Connect(it, ie, nil)
		return sp
	}
	switch c.Route {
	case "task":
		m := g.Add(gen.Task, "M", "")
		g.Connect(prev, m, nil)
		prev = m
	case "sub":
		m := sub("M")
		g.Connect(prev, m, nil)
		prev = m
	case "side":
		// the sub-process is not on the way: it sits on a parallel branch of its own
		f := g.Add(gen.And, "fk", "")
		j := g.Add(gen.And, "jn", "")
		m := sub("M")
		g.Connect(prev, f, nil)
		g.Connect(f, m, nil)
		g.Connect(f, j, nil)
		g.Connect(m, j, nil)
		prev = j
	}
	if c.Route == "inner-reader" {
		ws := g.Add(gen.Start, "W_s", "W")
		we := g.Add(gen.End, "W_e", "W")
		g.Connect(ws, b, nil)
		g.Connect(b, we, nil)
		g.Connect(prev, w, nil)
		g.Connect(w, xs, nil)
	} else {
		g.Connect(prev, b, nil)
		g.Connect(b, xs, nil)
	}
	g.Connect(xs, xm, &gen.Cond{Kind: "var", Var: "again", Op: ">", Val: 0})
	d := g.Connect(xs, e, nil)
	xs.Default = d.ID
	defs, _, err := step.Parse(g)
	if err != nil {
		v.Inconclusive("parse", "%v", err)
		return
	}
	perturb.Off()
	in, err := drive.New(env.Label, defs, drive.Opts{Vars: map[string]any{"again": 0}})
	if err != nil {
		v.Violate("new-process-error", "object-input", "%v", err)
		return
	}
	defer in.Cancel()
	if err := in.Start(); err != nil {
		v.Violate("start-error", "object-input", "%v", err)
		return
	}
	cls := fmt.Sprintf("between=%s-%s", c.Route, c.Names)
	rounds := 1
	if c.Loop {
		rounds = 3
	}
	for round := 0; round < rounds; round++ {
		want := map[string]any{"v": float64(40 + round), "round": fmt.Sprint(round)}
		for guard := 0; guard < 8; guard++ {
			q := in.Quiesce(step.Watchdog)
			if !q.Quiescent {
				v.Inconclusive("watchdog", "no quiescent point: %v", quiesce.Summary(q.Gs))
				return
			}
			p := in.Pending()
			if len(p) != 1 {
				v.Violate("continuation", cls, "round %d: pending %v, expected one request", round, in.PendingActs())
				return
			}
			switch p[0].Act {
			case "A":
				in.Answer(p[0], bpmn.DoWithObjects(map[string]any{name: want}))
				continue
			case "B":
				for _, chk := range []struct {
					n    string
					want any
				}{{name, any(want)}, {"other", any(map[string]any{"v": float64(-1)})}} {
					it, ok := p[0].Trace.GetDataObjects()[chk.n]
					var got any
					if ok && it != nil {
						got = it.Value()
					}
					if !reflect.DeepEqual(got, chk.want) {
						v.Violate("data-input-value", cls, "round %d: task A stored data output %s=%v; the request of the later task B shows data input %s=%v, expected %v", round, name, want, chk.n, got, chk.want)
						v.Log = in.Tail(30)
						return
					}
				}
				v.Add("data-input-reads", 2)
				again := 0
				if round < rounds-1 {
					again = 1
				}
				in.Answer(p[0], bpmn.DoWithResults(map[string]any{"again": again}))
			default:
				in.Answer(p[0], bpmn.DoWithResults(nil))
				continue
			}
			break
		}
	}
	q := in.Quiesce(step.Watchdog)
	if q.Quiescent {
		if n := in.Count("CeaseFlow", ""); n != 1 {
			v.Violate("not-complete", cls, "%d cease-flow traces at the end", n)
		}
	}
}

func c08Cases(tier string, seed uint64) []fw.Case {
	var cs []fw.Case
	reps := 30
	if tier == "thorough" {
		reps = 300
	}
	for ndo := 1; ndo <= 3; ndo++ {
		for _, conc := range []bool{false, true} {
			if ndo == 1 && conc {
				continue
			}
			for _, pl := range []string{"results", "objects", "both"} {
				for _, nm := range []string{"declared", "undeclared", "mixed"} {
					for _, hooks := range []bool{false, true} {
						c := c08Case{Kind: "first-wins", NDo: ndo, Conc: conc, Payload: pl, Names: nm, Reps: 1, Hooks: hooks}
						if conc {
							c.Reps = reps
						}
						c.Name = fmt.Sprintf("first-wins/n%d-conc%v-%s-%s-h%v", ndo, conc, pl, nm, hooks)
						cs = append(cs, fw.MkCase("first-wins", &c))
					}
				}
			}
		}
	}
	for _, h := range []string{"none", "skip", "exit", "retry"} {
		for retries := 0; retries <= 3; retries++ {
			if h != "retry" && retries > 0 {
				continue
			}
			for succeed := 0; succeed <= 4; succeed++ {
				if h != "retry" && succeed > 1 {
					continue
				}
				for _, extra := range []bool{false, true} {
					c := c08Case{Kind: "errors", Handler: h, Retries: retries, Succeed: succeed, Extra: extra, Reps: 1}
					c.Name = fmt.Sprintf("errors/%s-r%d-s%d-x%v", h, retries, succeed, extra)
					cs = append(cs, fw.MkCase("errors", &c))
				}
			}
		}
	}
	// retry answers whose budgets differ from answer to answer, and a second failing task on the same token
	var seqs [][]int
	for a := 0; a <= 3; a++ {
		for b := 0; b <= 3; b++ {
			if a != b {
				seqs = append(seqs, []int{a, b})
			}
			for d := 0; d <= 3; d++ {
				if !(a == b && b == d) {
					seqs = append(seqs, []int{a, b, d})
				}
			}
		}
	}
	for si, sq := range seqs {
		for _, succeed := range []int{0, 2, 3, 4} {
			c := c08Case{Kind: "errors", Handler: "retry", Seq: sq, Succeed: succeed, Reps: 1}
			if succeed > 0 {
				c.Second = (si+succeed)%4 // 0 = none, else budget Second-1
			}
			c.Name = fmt.Sprintf("errors/retry-seq%v-s%d-second%d", sq, succeed, c.Second)
			cs = append(cs, fw.MkCase("errors", &c))
		}
	}
	// answers arriving after the instance's context was cancelled: 1..4 Do calls in a row on the request that was
	// still open (sequentially from one goroutine, or each from its own)
	for ndo := 1; ndo <= 4; ndo++ {
		for _, conc := range []bool{false, true} {
			c := c08Case{Kind: "after-cancel", NDo: ndo, Conc: conc, Reps: 1}
			c.Name = fmt.Sprintf("after-cancel/n%d-conc%v", ndo, conc)
			cs = append(cs, fw.MkCase("after-cancel", &c))
		}
	}
	// a stored data output read through the data input of a later task
	for _, between := range []string{"none", "task", "sub", "side", "inner-writer", "inner-reader"} {
		for _, names := range []string{"id-equals-name", "id-differs", "via-reference"} {
			for _, loop := range []bool{false, true} {
				c := c08Case{Kind: "object-input", Route: between, Names: names, Loop: loop, Reps: 1}
				c.Name = fmt.Sprintf("object-input/%s-%s-loop%v", between, names, loop)
				cs = append(cs, fw.MkCase("object-input", &c))
			}
		}
	}
	// declared headers / properties of a task requested again and again in a loop
	for a := 0; a < 17; a++ {
		for b := 0; b < 17; b++ {
			if a >= 7 && b < 7 && (a+b)%2 == 1 {
				continue
			}
			c := c08Case{Kind: "inputs", Seq: []int{a, b, (a + b + 1) % 17}, Reps: 1}
			c.Name = fmt.Sprintf("inputs/%d-%d", a, b)
			cs = append(cs, fw.MkCase("inputs", &c))
		}
	}
	// what a successful answer stores, over the value kinds of the catalogue
	nv := len(c16Values())
	for _, route := range []string{"results", "objects"} {
		for from := 0; from < nv; from += 10 {
			c := c08Case{Kind: "values", Route: route, From: from, To: from + 10, Reps: 1}
			c.Name = fmt.Sprintf("values/%s/%d", route, from)
			cs = append(cs, fw.MkCase("values", &c))
		}
	}
	return fw.Number(cs)
}

type doOp struct {
	Read   bool
	Marker int
}

// write-once register: the first Do (in linearization order) decides.
var c08Model = porcupine.Model{
	Init: func() any { return 0 },
	Step: func(st, in, out any) (bool, any) {
		op := in.(doOp)
		cur := st.(int)
		if op.Read {
			return out.(int) == cur, cur
		}
		if cur == 0 {
			return true, op.Marker
		}
		return true, cur
	},
	DescribeOperation: func(in, out any) string {
		op := in.(doOp)
		if op.Read {
			return fmt.Sprintf("read -> %v", out)
		}
		return fmt.Sprintf("Do(marker %d)", op.Marker)
	},
}

func c08Payload(c *c08Case, marker int) []bpmn.DoOption {
	res := map[string]any{}
	obj := map[string]any{}
	switch c.Names {
	case "declared":
		res["r1"], res["r2"] = marker, marker+1000
		obj["o1"] = map[string]any{"m": marker}
	case "undeclared":
		res["u1"], res["u2"] = marker, marker
		obj["uo"] = map[string]any{"m": marker}
	case "mixed":
		res["r1"], res["u1"] = marker, marker
		obj["o1"], obj["uo"] = map[string]any{"m": marker}, map[string]any{"m": marker}
	}
	var opts []bpmn.DoOption
	if c.Payload == "results" || c.Payload == "both" {
		opts = append(opts, bpmn.DoWithResults(res))
	}
	if c.Payload == "objects" || c.Payload == "both" {
		opts = append(opts, bpmn.DoWithObjects(obj))
	}
	return opts
}

// c08AfterCancel: the request of T is open, the instance's context is cancelled, then NDo answers arrive. None of
// them may block its caller and none has an effect (no further request, no stored result).
func c08AfterCancel(c *c08Case, env *fw.Env, v *fw.V) {
	defs, _, err := step.Parse(c08Graph())
	if err != nil {
		v.Inconclusive("parse", "%v", err)
		return
	}
	perturb.Off()
	in, err := drive.New(env.Label, defs, drive.Opts{ExtraSubs: 1, Vars: map[string]any{"r1": 0}})
	if err != nil {
		v.Violate("new-process-error", "error", "%v", err)
		return
	}
	defer in.Cancel()
	quiet := func(what string) (quiesce.Result, bool) {
		q := in.Quiesce(step.Watchdog)
		v.Add("qpoints", 1)
		if !q.Quiescent {
			v.Inconclusive("watchdog", "no quiescent point %s: %v", what, quiesce.Summary(q.Gs))
			return q, false
		}
		return q, true
	}
	if err := in.Start(); err != nil {
		v.Violate("start-error", "error", "%v", err)
		return
	}
	if _, ok := quiet("after start"); !ok {
		return
	}
	p := in.Pending()
	if len(p) != 1 {
		v.Inconclusive("setup", "pending %v", in.PendingActs())
		return
	}
	req := p[0]
	in.Cancel()
	if _, ok := quiet("after cancellation"); !ok {
		return
	}
	var calls []*drive.Call
	if c.Conc {
		for k := 0; k < c.NDo; k++ {
			k := k
			calls = append(calls, in.Go("LateDo", func() error { req.Trace.Do(bpmn.DoWithResults(map[string]any{"r1": 100 + k})); return nil }))
		}
	} else {
		calls = append(calls, in.Go("LateDo", func() error {
			for k := 0; k < c.NDo; k++ {
				req.Trace.Do(bpmn.DoWithResults(map[string]any{"r1": 100 + k}))
			}
			return nil
		}))
	}
	q, ok := quiet("after the late answers")
	if !ok {
		return
	}
	for _, cl := range calls {
		if d, _ := cl.Done(); !d {
			site := ""
			if gs := quiesce.DriverIn(q.Gs, "taskTrace).Do"); len(gs) > 0 {
				site = gs[0].TopRepoFrame()
			}
			v.Violate("do-blocked", "after-cancel", "%d Do call(s) on a request whose instance was cancelled: a call never returned (blocked at %s)", c.NDo, site)
			return
		}
	}
	if n := len(in.Reqs()); n != 1 {
		v.Violate("late-do-effect", "after-cancel", "%d requests in total after answers that arrived after the cancellation (expected 1)", n)
	}
}

func c08FirstWins(c *c08Case, env *fw.Env, v *fw.V) {
	g := c08Graph()
	defs, _, err := step.Parse(g)
	if err != nil {
		v.Inconclusive("parse", "%v", err)
		return
	}
	if c.Hooks {
		perturb.ConfigureSites(map[string]float64{"task.do": 0.5, "task.process": 0.5, "act.relay": 0.3, "flow.action": 0.2}, 300)
	} else {
		perturb.Off()
	}
	in, err := drive.New(env.Label, defs, drive.Opts{ExtraSubs: 1, Vars: map[string]any{"r1": 0}})
	if err != nil {
		v.Violate("new-process-error", "error", "%v", err)
		return
	}
	defer in.Cancel()
	cls := fmt.Sprintf("ndo=%d-conc=%v", c.NDo, c.Conc)
	quiet := func(what string) (quiesce.Result, bool) {
		q := in.Quiesce(step.Watchdog)
		v.Add("qpoints", 1)
		if !q.Quiescent {
			v.Inconclusive("watchdog", "no quiescent point %s: %v", what, quiesce.Summary(q.Gs))
			return q, false
		}
		return q, true
	}
	if err := in.Start(); err != nil {
		v.Violate("start-error", "error", "%v", err)
		return
	}
	if _, ok := quiet("after start"); !ok {
		return
	}
	reqs := in.Pending()
	if len(reqs) != 1 || reqs[0].Act != "T" {
		v.Inconclusive("setup", "expected one request for T, got %v", in.PendingActs())
		return
	}
	req := reqs[0]
	in.MarkAnswered(req)
	// the Do history
	var ops []porcupine.Operation
	var mu sync.Mutex
	call := func(i int) {
		marker := 10 + i
		t0 := drive.Seq.Add(1)
		req.Trace.Do(c08Payload(c, marker)...)
		t1 := drive.Seq.Add(1)
		mu.Lock()
		ops = append(ops, porcupine.Operation{ClientId: i, Input: doOp{Marker: marker}, Call: t0, Output: 0, Return: t1})
		mu.Unlock()
	}
	if c.Conc {
		var wg sync.WaitGroup
		barrier := make(chan struct{})
		for i := 0; i < c.NDo; i++ {
			wg.Add(1)
			go func(i int) {
				defer wg.Done()
				<-barrier
				call(i)
			}(i)
		}
		close(barrier)
		// do not wait for the calls here: a Do that never returns must show up as a blocked caller
		done := make(chan struct{})
		go func() { wg.Wait(); close(done) }()
		q, ok := quiet("after concurrent Do calls")
		if !ok {
			return
		}
		if gs := quiesce.DriverIn(q.Gs, "taskTrace).Do"); len(gs) > 0 {
			v.Violate("do-blocked", cls, "%d of %d concurrent Do calls on one request never returned (blocked at %s)", len(gs), c.NDo, gs[0].TopRepoFrame())
			v.Log = in.Tail(30)
			return
		}
		<-done
	} else {
		for i := 0; i < c.NDo; i++ {
			cl := in.Go("Do", func() error { call(i); return nil })
			q, ok := quiet(fmt.Sprintf("after Do #%d", i))
			if !ok {
				return
			}
			if d, _ := cl.Done(); !d {
				gs := quiesce.DriverIn(q.Gs, "taskTrace).Do")
				site := ""
				if len(gs) > 0 {
					site = gs[0].TopRepoFrame()
				}
				v.Violate("do-blocked", cls, "sequential Do #%d on an already answered request never returned (blocked at %s)", i, site)
				return
			}
		}
	}
	if _, ok := quiet("after the Do history"); !ok {
		return
	}
	// observe the effective answer
	vars := in.Vars()
	declared := c.Names != "undeclared" && c.Payload != "objects"
	effective := 0
	if r1, ok := vars["r1"]; ok {
		if n, ok := r1.(int64); ok {
			effective = int(n)
		}
	}
	objEffective := 0
	if c.Names != "undeclared" && c.Payload != "results" {
		if loc, ok := in.Proc.Locator().FindIItemAwareLocator("."); ok {
			if aw, ok := loc.FindItemAwareById("o1"); ok && aw.Get() != nil {
				if m, ok := aw.Get().Value().(map[string]any); ok {
					if f, ok := m["m"].(float64); ok {
						objEffective = int(f)
					}
				}
			}
		}
		if objEffective == 0 {
			v.Violate("output-not-stored", c.Payload+"-"+c.Names, "declared data output o1 was supplied but is not stored")
		}
	}
	if declared && effective == 0 {
		v.Violate("result-not-stored", c.Payload+"-"+c.Names, "declared result r1 was supplied but is not stored (variables %v)", vars)
	}
	if declared && objEffective != 0 && effective != objEffective {
		v.Violate("answer-torn", cls, "stored result comes from Do(marker %d) but stored data output from Do(marker %d)", effective, objEffective)
	}
	if effective == 0 {
		effective = objEffective
	}
	// stored names = declared ∩ supplied
	for _, u := range []string{"u1", "u2"} {
		if _, ok := vars[u]; ok {
			v.Violate("undeclared-result-stored", c.Names, "undeclared result %s is visible as a variable", u)
		}
	}
	if _, ok := vars["r2"]; ok != (c.Names == "declared" && c.Payload != "objects") {
		v.Violate("declared-set-mismatch", c.Names, "variable r2 present=%v, supplied=%v", ok, c.Names == "declared" && c.Payload != "objects")
	}
	if loc, ok := in.Proc.Locator().FindIItemAwareLocator("."); ok {
		if aw, ok := loc.FindItemAwareById("uo"); ok && aw.Get() != nil {
			v.Violate("undeclared-output-stored", c.Names, "undeclared data output uo is stored")
		}
	}
	if v.Violated() {
		v.Log = in.Tail(30)
		return
	}
	// linearizability: the effective marker must be explainable by "first Do wins"
	if effective != 0 {
		ops = append(ops, porcupine.Operation{ClientId: 99, Input: doOp{Read: true}, Call: drive.Seq.Add(1), Output: effective, Return: drive.Seq.Add(1)})
		res, _ := porcupine.CheckOperationsVerbose(c08Model, ops, 20*time.Second)
		switch res {
		case porcupine.Illegal:
			v.Violate("not-first-do", cls, "effective answer has marker %d, not explainable by a linearization in which the first Do wins: history %v", effective, ops)
		case porcupine.Unknown:
			v.Inconclusive("porcupine-timeout", "checker timed out")
		}
		v.Add("porcupine-histories", 1)
	}
	// exactly one continuation, on the branch the stored value selects, with the value visible downstream
	next := in.PendingActs()
	wantNext := "NB"
	if declared {
		wantNext = "NA"
	}
	if len(next) != 1 || next[0] != wantNext {
		v.Violate("continuation", cls, "after the Do history pending requests are %v, expected exactly [%s]", next, wantNext)
		v.Log = in.Tail(30)
		return
	}
	nreq := in.Pending()[0]
	props := nreq.Trace.GetProperties()
	if declared {
		if p, ok := props["r1"]; !ok || fmt.Sprint(p.Value()) != fmt.Sprint(effective) {
			var pv any
			if ok {
				pv = p.Value()
			}
			v.Violate("downstream-property", c.Names, "next task's property r1 = %v, stored result is %d", pv, effective)
		}
	}
	if c.Names != "undeclared" && c.Payload != "results" {
		if it, ok := nreq.Trace.GetDataObjects()["o1"]; !ok || it == nil {
			v.Violate("downstream-data-input", c.Names, "next task does not see data output o1 through its data input")
		}
	}
	// a late Do on the first request must have no effect either
	cl := in.Go("LateDo", func() error { req.Trace.Do(bpmn.DoWithResults(map[string]any{"r1": 999})); return nil })
	q, ok := quiet("after a late Do")
	if !ok {
		return
	}
	if d, _ := cl.Done(); !d {
		gs := quiesce.DriverIn(q.Gs, "taskTrace).Do")
		site := ""
		if len(gs) > 0 {
			site = gs[0].TopRepoFrame()
		}
		v.Violate("do-blocked", "late", "a Do issued after the request was answered never returned (blocked at %s)", site)
		return
	}
	if r1, ok := in.Vars()["r1"]; ok && fmt.Sprint(r1) == "999" {
		v.Violate("late-do-effect", cls, "a Do issued after the request was answered changed variable r1")
	}
	if n := len(in.Reqs()); n != 2 {
		v.Violate("late-do-effect", cls, "%d requests in total after a late Do (expected 2)", n)
	}
	in.Answer(nreq, bpmn.DoWithResults(nil))
	if _, ok := quiet("at the end"); ok {
		if n := in.Count("CeaseFlow", ""); n != 1 {
			v.Violate("not-complete", cls, "%d cease-flow traces at the end", n)
		}
	}
	v.Add("traces", len(in.Log(0)))
	if v.Violated() {
		v.Log = in.Tail(30)
	}
}

func c08Errors(c *c08Case, env *fw.Env, v *fw.V) {
	g := c08Graph()
	defs, _, err := step.Parse(g)
	if err != nil {
		v.Inconclusive("parse", "%v", err)
		return
	}
	perturb.Off()
	in, err := drive.New(env.Label, defs, drive.Opts{ExtraSubs: 1, Vars: map[string]any{"r1": 0}})
	if err != nil {
		v.Violate("new-process-error", "error", "%v", err)
		return
	}
	defer in.Cancel()
	cls := fmt.Sprintf("%s-retries=%d", c.Handler, c.Retries)
	if len(c.Seq) > 0 {
		cls = "retry-varying-budget"
	}
	quiet := func(what string) bool {
		q := in.Quiesce(step.Watchdog)
		v.Add("qpoints", 1)
		if !q.Quiescent {
			v.Inconclusive("watchdog", "no quiescent point %s: %v", what, quiesce.Summary(q.Gs))
			return false
		}
		if gs := quiesce.DriverIn(q.Gs, "taskTrace).Do"); len(gs) > 0 {
			v.Violate("do-blocked", cls, "%s: Do never returned (blocked at %s)", what, gs[0].TopRepoFrame())
			return false
		}
		return true
	}
	if err := in.Start(); err != nil {
		v.Violate("start-error", "error", "%v", err)
		return
	}
	if !quiet("after start") {
		return
	}
	errAnswers := 0
	attempts := 0
	succeeded := false
	budget := func(attempt int) int {
		if len(c.Seq) == 0 {
			return c.Retries
		}
		if attempt-1 < len(c.Seq) {
			return c.Seq[attempt-1]
		}
		return c.Seq[len(c.Seq)-1]
	}
	for attempt := 1; attempt <= 8; attempt++ {
		var req *drive.Req
		for _, r := range in.Pending() {
			if r.Act == "T" {
				req = r
			}
		}
		if req == nil {
			break
		}
		attempts++
		if c.Succeed == attempt {
			in.Answer(req, bpmn.DoWithResults(map[string]any{"r1": 7}))
			succeeded = true
		} else {
			e := errors.New("boom")
			errAnswers++
			switch c.Handler {
			case "none":
				in.Answer(req, bpmn.DoWithErr(e))
			default:
				ch := make(chan bpmn.ErrHandler, 1)
				mode := map[string]bpmn.ErrHandleMode{"skip": bpmn.SkipMode, "exit": bpmn.ExitMode, "retry": bpmn.RetryMode}[c.Handler]
				ch <- bpmn.ErrHandler{Mode: mode, Retries: int32(budget(attempt))}
				in.Answer(req, bpmn.DoWithErrHandle(e, ch))
			}
		}
		if c.Extra {
			// one more Do with results on the same request: must return and have no effect
			cl := in.Go("ExtraDo", func() error { req.Trace.Do(bpmn.DoWithResults(map[string]any{"r1": 555})); return nil })
			_ = cl
		}
		if !quiet(fmt.Sprintf("after answering attempt %d", attempt)) {
			v.Log = in.Tail(30)
			return
		}
		if succeeded {
			break
		}
		if c.Handler != "retry" {
			break
		}
	}
	// expectations
	wantRequests := 1
	wantContinue := true
	switch {
	case c.Succeed == 1:
		// plain success
	case c.Handler == "none" || c.Handler == "skip":
		wantContinue = true
	case c.Handler == "exit":
		wantContinue = false
	case c.Handler == "retry":
		// the k-th request's failing answer grants budget(k) additional requests in total:
		// the task is requested again only while k-1 < budget(k)
		wantRequests, wantContinue = 0, false
		for k := 1; k <= 8; k++ {
			wantRequests = k
			if c.Succeed == k {
				wantContinue = true
				break
			}
			if k-1 >= budget(k) {
				break
			}
		}
	}
	gotRequests := in.Count("Task", "T")
	if gotRequests != wantRequests {
		v.Violate("retry-count", cls, "task requested %d times, expected %d (handler %s retries %d, success on attempt %d)", gotRequests, wantRequests, c.Handler, c.Retries, c.Succeed)
	}
	// every error answer that took effect emits an error trace
	nerr := 0
	for _, e := range in.Log(0) {
		if e.Kind == "Error" {
			nerr++
		}
	}
	effectiveErr := errAnswers
	if nerr != effectiveErr {
		v.Violate("error-trace-count", cls, "%d error traces for %d effective error answers", nerr, effectiveErr)
	}
	cont := 0
	for _, a := range in.PendingActs() {
		if a == "NA" || a == "NB" {
			cont++
		}
	}
	if wantContinue && cont != 1 {
		v.Violate("continuation", cls, "token should continue past the task exactly once (mode %s), pending %v", c.Handler, in.PendingActs())
	}
	if !wantContinue && cont != 0 {
		v.Violate("continuation", cls, "token should stop at the task (mode %s retries %d success %d), pending %v", c.Handler, c.Retries, c.Succeed, in.PendingActs())
	}
	// a second task on the same token that always fails: requested at most (its own budget + 1) times, at least once
	if c.Second > 0 && wantContinue && cont == 1 && !v.Violated() {
		second := ""
		for n := 0; n < 8; n++ {
			var req *drive.Req
			for _, r := range in.Pending() {
				if r.Act == "NA" || r.Act == "NB" {
					req = r
				}
			}
			if req == nil {
				break
			}
			second = req.Act
			ch := make(chan bpmn.ErrHandler, 1)
			ch <- bpmn.ErrHandler{Mode: bpmn.RetryMode, Retries: int32(c.Second - 1)}
			in.Answer(req, bpmn.DoWithErrHandle(errors.New("boom2"), ch))
			if !quiet("after failing the second task") {
				return
			}
		}
		if got := in.Count("Task", second); got < 1 || got > c.Second {
			v.Violate("retry-count", cls+"-second-task", "second task %s on the same token always fails with retry budget %d: requested %d times, allowed 1..%d (first task's budgets %v)", second, c.Second-1, got, c.Second, c.Seq)
		}
	}
	if c.Extra {
		if r1, ok := in.Vars()["r1"]; ok && fmt.Sprint(r1) == "555" {
			v.Violate("late-do-effect", cls, "a second Do on an answered request changed variable r1")
		}
	}
	v.Add("traces", len(in.Log(0)))
	if v.Violated() {
		v.Log = in.Tail(40)
	}
}

func init() {
	fw.Register(&fw.Prop{
		ID:    "C08",
		Cases: c08Cases,
		Run: func(c fw.Case, env *fw.Env) *fw.V {
			v := fw.NewV(c)
			var cc c08Case
			if err := json.Unmarshal(c.Desc, &cc); err != nil {
				v.Inconclusive("descriptor", "%v", err)
				return v
			}
			for i := 0; i < cc.Reps && !v.Violated(); i++ {
				fw.Rep(env, i, func(env *fw.Env) {
					if cc.Kind == "after-cancel" {
						c08AfterCancel(&cc, env, v)
					} else if cc.Kind == "inputs" {
						c08Inputs(&cc, env, v)
					} else if cc.Kind == "object-input" {
						c08ObjInput(&cc, env, v)
					} else if cc.Kind == "values" {
						tmp := fw.NewV(fw.Case{})
						c16Engine(&c16Case{Kind: "engine", Route: cc.Route, From: cc.From, To: cc.To}, env, tmp)
						for _, f := range tmp.Findings {
							if f.Status == fw.Violation {
								v.Violate("stored-"+f.Rule, f.Class, "%s", f.Msg)
							} else {
								v.Inconclusive(f.Rule, "%s", f.Msg)
							}
						}
						v.Add("values", tmp.Stats["values"])
					} else if cc.Kind == "first-wins" {
						c08FirstWins(&cc, env, v)
					} else {
						c08Errors(&cc, env, v)
					}
				})
				v.Add("runs", 1)
			}
			v.Nontrivial = true
			return v
		},
		Rule:        "answer histories per request: 1..3 Do calls x sequential / concurrent behind a barrier x payload {results, data objects, both} x names {declared, undeclared, mixed} x hooks off/on (concurrent ones repeated 30/300 times), checked with a porcupine write-once-register model over the Do call/return history and the observed effective marker, plus blocked-caller census, declared-only storage, downstream visibility (gateway branch, next task's properties and data inputs) and late Do; 1..4 answers arriving after the instance's context was cancelled (none may block); a catalogue of ~100 values of every kind (integer widths, floats, strings, booleans, byte slices, nested maps / slices / structs, pointers, nil) answered as declared result and as declared data output, read back in canonical form from the variables and the next task's data inputs; error histories: handler {none, skip, exit, retry n=0..3} x success on attempt 0..4 x extra Do; retry answers whose budget differs from answer to answer (all budget sequences of length 2..3 over 0..3; the k-th failing answer with budget b re-requests only while k-1 < b) x success attempt, followed by a second always-failing task on the same token (requested 1..budget+1 times); all cases non-trivial; distinct = descriptor hash; inputs scenario with typed properties (text, float, integer, boolean, object, array) bound by reference to a stored result; object-input scenario: a stored data output read through the data input of a later task with nothing / a task / a sub-process between them, a sub-process on a parallel branch, or the storing / the reading task inside a sub-process, id = name, id differing, or read through a data object reference, three rounds in a loop",
		Exhaustive:  func(string) bool { return true },
		Assumptions: []string{"each Do carries a unique marker for a declared field so the effective answer identifies the call that won"},
	})
}
