package props

import (
	"context"
	"encoding/json"
	"fmt"
	"reflect"
	"sort"
	"strings"
	"sync"

	"github.com/olive-io/bpmn/schema"
	bpmn "github.com/olive-io/bpmn/v2"
	"github.com/olive-io/bpmn/v2/pkg/tracing"

	"verif/internal/drive"
	"verif/internal/fw"
	"verif/internal/gen"
	"verif/internal/perturb"
	"verif/internal/quiesce"
	"verif/internal/refsem"
	"verif/internal/step"
)

type c18Case struct {
	Name  string   `json:"name"`
	Execs []string `json:"execs"` // trivial | task | fork
	Link  string   `json:"link"`  // none | start | catch | both
	Hook  float64  `json:"hook"`
	Waits string   `json:"waits"` // once | twice | three | expired
	Storm bool     `json:"storm"`
	Reps  int      `json:"reps"`
	// Doc: order of the process elements in the document: "" as built (executable ones first), "rev" reversed
	// (waiting processes first), "rot" the last one first
	Doc string `json:"doc,omitempty"`
	// OwnTracer: the set is created with a tracer supplied by the caller (WithTracer) instead of the engine's
	OwnTracer bool `json:"own_tracer,omitempty"`
}

type c18Build struct {
	graphs []*gen.Graph
	exec   []bool
	extra  string
	// message flows: throw node id -> (target process index, target node id, kind)
	links map[string][]c18Link
	// behind: task id -> throw events that fire (in this order) once the task is answered
	behind map[string][]string
}

type c18Link struct {
	proc int
	node string
	kind string // start | catch
}

func c18Definitions(c *c18Case) *c18Build {
	b := &c18Build{links: map[string][]c18Link{}, behind: map[string][]string{}}
	var flows []string
	for i, shape := range c.Execs {
		p := fmt.Sprintf("p%d", i)
		g := gen.NewGraph(p)
		s := g.Add(gen.Start, p+"_start", "")
		prev := s
		var defFrom *gen.Node // the next flow leaving this node is its default flow
		link := func(n *gen.Node) {
			f := g.Connect(prev, n, nil)
			if defFrom != nil && defFrom == prev {
				prev.Default = f.ID
				defFrom = nil
			}
			prev = n
		}
		switch shape {
		case "task":
			link(g.Add(gen.Task, p+"_t1", ""))
		case "fork":
			f := g.Add(gen.And, p+"_fork", "")
			j := g.Add(gen.And, p+"_join", "")
			link(f)
			for k := 1; k <= 2; k++ {
				t := g.Add(gen.Task, fmt.Sprintf("%s_b%d", p, k), "")
				g.Connect(f, t, nil)
				g.Connect(t, j, nil)
			}
			prev = j
			link(g.Add(gen.Task, p+"_t1", ""))
		}
		// message-flow sources live in process 0 behind a task of their own
		if i == 0 && c.Link != "none" {
			link(g.Add(gen.Task, p+"_pre", ""))
			var loopMerge *gen.Node
			if c.Link == "loopstart" {
				// the throw event sits in a loop: the token passes it twice (two throws, two instantiations)
				loopMerge = g.Add(gen.Xor, p+"_xm", "")
				link(loopMerge)
			}
			if c.Link == "start" || c.Link == "both" || c.Link == "start2" || c.Link == "loopstart" || c.Link == "chain" {
				th := g.Add(gen.Throw, p+"_throwS", "")
				th.Events = []gen.EventDef{{Type: "message", Ref: "msgS"}}
				link(th)
				b.behind[p+"_pre"] = append(b.behind[p+"_pre"], th.ID)
			}
			if c.Link == "loopstart" {
				lt := g.Add(gen.Task, p+"_lt", "")
				lt.Writes = []string{"cnt"}
				link(lt)
				xs := g.Add(gen.Xor, p+"_xs", "")
				link(xs)
				g.Connect(xs, loopMerge, &gen.Cond{Kind: "var", Var: "cnt", Op: "<", Val: 2})
				defFrom = xs
			}
			if c.Link == "start2" {
				th := g.Add(gen.Throw, p+"_throwS2", "")
				th.Events = []gen.EventDef{{Type: "message", Ref: "msgS2"}}
				link(th)
				b.behind[p+"_pre"] = append(b.behind[p+"_pre"], th.ID)
			}
			if c.Link == "waitcatch" {
				th := g.Add(gen.Throw, p+"_throwW", "")
				th.Events = []gen.EventDef{{Type: "message", Ref: "msgW"}}
				link(th)
				b.behind[p+"_pre"] = append(b.behind[p+"_pre"], th.ID)
			}
			if c.Link == "catch" || c.Link == "both" || c.Link == "catch2" {
				th := g.Add(gen.Throw, p+"_throwC", "")
				th.Events = []gen.EventDef{{Type: "signal", Ref: "sigC"}}
				link(th)
				b.behind[p+"_pre"] = append(b.behind[p+"_pre"], th.ID)
			}
			if c.Link == "fanin" {
				// four throw events on parallel branches, each with a message flow of its own to the SAME catch event
				fk := g.Add(gen.And, p+"_ffork", "")
				jn := g.Add(gen.And, p+"_fjoin", "")
				link(fk)
				for k := 1; k <= 4; k++ {
					th := g.Add(gen.Throw, fmt.Sprintf("%s_throwF%d", p, k), "")
					th.Events = []gen.EventDef{{Type: "signal", Ref: "sigC"}}
					g.Connect(fk, th, nil)
					g.Connect(th, jn, nil)
					b.behind[p+"_pre"] = append(b.behind[p+"_pre"], th.ID)
				}
				prev = jn
			}
			if c.Link == "fanstart" {
				// four throw events on parallel branches, each with a message flow of its own to the start event of
				// the SAME waiting process: four instances of it are made at about the same time
				fk := g.Add(gen.And, p+"_sfork", "")
				jn := g.Add(gen.And, p+"_sjoin", "")
				link(fk)
				for k := 1; k <= 4; k++ {
					th := g.Add(gen.Throw, fmt.Sprintf("%s_throwG%d", p, k), "")
					th.Events = []gen.EventDef{{Type: "message", Ref: "msgS"}}
					g.Connect(fk, th, nil)
					g.Connect(th, jn, nil)
					b.behind[p+"_pre"] = append(b.behind[p+"_pre"], th.ID)
				}
				prev = jn
			}
			if c.Link == "catch2" {
				// a second throw behind a task of its own: its catch event starts listening (and is
				// registered with the set) only after the first catch event was woken
				link(g.Add(gen.Task, p+"_pre2", ""))
				th := g.Add(gen.Throw, p+"_throwC2", "")
				th.Events = []gen.EventDef{{Type: "signal", Ref: "sigC2"}}
				link(th)
				b.behind[p+"_pre2"] = append(b.behind[p+"_pre2"], th.ID)
			}
		}
		// the catching process: last executable process (may be process 0 itself only if single -> use a parallel branch)
		link(g.Add(gen.End, p+"_end", ""))
		b.graphs = append(b.graphs, g)
		b.exec = append(b.exec, true)
	}
	if c.Link == "catch" || c.Link == "both" || c.Link == "catch2" || c.Link == "fanin" {
		// dedicated executable process that waits at a catch event
		g := gen.NewGraph("pc")
		s := g.Add(gen.Start, "pc_start", "")
		ce := g.Add(gen.Catch, "pc_catch", "")
		ce.Events = []gen.EventDef{{Type: "signal", Ref: "sigC"}}
		t := g.Add(gen.Task, "pc_t", "")
		e := g.Add(gen.End, "pc_end", "")
		g.Connect(s, ce, nil)
		if c.Link == "catch2" {
			ce2 := g.Add(gen.Catch, "pc_catch2", "")
			ce2.Events = []gen.EventDef{{Type: "signal", Ref: "sigC2"}}
			g.Connect(ce, ce2, nil)
			g.Connect(ce2, t, nil)
		} else {
			g.Connect(ce, t, nil)
		}
		g.Connect(t, e, nil)
		b.graphs = append(b.graphs, g)
		b.exec = append(b.exec, true)
		if c.Link == "fanin" {
			for k := 1; k <= 4; k++ {
				th := fmt.Sprintf("p0_throwF%d", k)
				b.links[th] = append(b.links[th], c18Link{len(b.graphs) - 1, "pc_catch", "catch"})
				flows = append(flows, fmt.Sprintf(`<bpmn:messageFlow id="MF_f%d" sourceRef="%s" targetRef="pc_catch"/>`, k, th))
			}
		} else {
			b.links["p0_throwC"] = append(b.links["p0_throwC"], c18Link{len(b.graphs) - 1, "pc_catch", "catch"})
			flows = append(flows, `<bpmn:messageFlow id="MF_c" sourceRef="p0_throwC" targetRef="pc_catch"/>`)
		}
		if c.Link == "catch2" {
			b.links["p0_throwC2"] = append(b.links["p0_throwC2"], c18Link{len(b.graphs) - 1, "pc_catch2", "catch"})
			flows = append(flows, `<bpmn:messageFlow id="MF_c2" sourceRef="p0_throwC2" targetRef="pc_catch2"/>`)
		}
	}
	if c.Link == "waitcatch" {
		// message flow towards a catch event inside a process that was never instantiated: nothing listens there,
		// the throw has no effect and the set completes with its started processes
		g := gen.NewGraph("pwc")
		s := g.Add(gen.Start, "pwc_start", "")
		ce := g.Add(gen.Catch, "pwc_catch", "")
		ce.Events = []gen.EventDef{{Type: "message", Ref: "msgW"}}
		t := g.Add(gen.Task, "pwc_t", "")
		e := g.Add(gen.End, "pwc_end", "")
		g.Connect(s, ce, nil)
		g.Connect(ce, t, nil)
		g.Connect(t, e, nil)
		b.graphs = append(b.graphs, g)
		b.exec = append(b.exec, false)
		b.links["p0_throwW"] = append(b.links["p0_throwW"], c18Link{len(b.graphs) - 1, "pwc_catch", "unstarted-catch"})
		flows = append(flows, `<bpmn:messageFlow id="MF_w" sourceRef="p0_throwW" targetRef="pwc_catch"/>`)
	}
	if c.Link == "start2" {
		// a first waiting process that is NOT the target of the second flow, and a second one that is
		for _, w := range []string{"pw", "pw2"} {
			g := gen.NewGraph(w)
			s := g.Add(gen.Start, w+"_start", "")
			t := g.Add(gen.Task, w+"_t", "")
			e := g.Add(gen.End, w+"_end", "")
			g.Connect(s, t, nil)
			g.Connect(t, e, nil)
			b.graphs = append(b.graphs, g)
			b.exec = append(b.exec, false)
		}
		b.links["p0_throwS"] = append(b.links["p0_throwS"], c18Link{len(b.graphs) - 2, "pw_start", "start"})
		b.links["p0_throwS2"] = append(b.links["p0_throwS2"], c18Link{len(b.graphs) - 1, "pw2_start", "start"})
		flows = append(flows, `<bpmn:messageFlow id="MF_s" sourceRef="p0_throwS" targetRef="pw_start"/>`,
			`<bpmn:messageFlow id="MF_s2" sourceRef="p0_throwS2" targetRef="pw2_start"/>`)
	}
	if c.Link == "chain" {
		// a chain of message flows through two waiting processes: p0 instantiates pw, whose own throw event (behind
		// a task) instantiates pw2; pw ends right after its throw, while pw2 still has a task to be answered
		g := gen.NewGraph("pw")
		s := g.Add(gen.Start, "pw_start", "")
		s.Events = []gen.EventDef{{Type: "message", Ref: "msgS"}}
		t := g.Add(gen.Task, "pw_t", "")
		th := g.Add(gen.Throw, "pw_throwC", "")
		th.Events = []gen.EventDef{{Type: "message", Ref: "msgC"}}
		e := g.Add(gen.End, "pw_end", "")
		g.Connect(s, t, nil)
		g.Connect(t, th, nil)
		g.Connect(th, e, nil)
		b.graphs = append(b.graphs, g)
		b.exec = append(b.exec, false)
		b.behind["pw_t"] = append(b.behind["pw_t"], th.ID)
		g2 := gen.NewGraph("pw2")
		s2 := g2.Add(gen.Start, "pw2_start", "")
		s2.Events = []gen.EventDef{{Type: "message", Ref: "msgC"}}
		t2 := g2.Add(gen.Task, "pw2_t", "")
		e2 := g2.Add(gen.End, "pw2_end", "")
		g2.Connect(s2, t2, nil)
		g2.Connect(t2, e2, nil)
		b.graphs = append(b.graphs, g2)
		b.exec = append(b.exec, false)
		b.links["p0_throwS"] = append(b.links["p0_throwS"], c18Link{len(b.graphs) - 2, "pw_start", "start"})
		b.links["pw_throwC"] = append(b.links["pw_throwC"], c18Link{len(b.graphs) - 1, "pw2_start", "start"})
		flows = append(flows, `<bpmn:messageFlow id="MF_s" sourceRef="p0_throwS" targetRef="pw_start"/>`,
			`<bpmn:messageFlow id="MF_c" sourceRef="pw_throwC" targetRef="pw2_start"/>`)
	}
	if c.Link == "start" || c.Link == "both" || c.Link == "loopstart" || c.Link == "fanstart" {
		g := gen.NewGraph("pw")
		s := g.Add(gen.Start, "pw_start", "")
		s.Events = []gen.EventDef{{Type: "message", Ref: "msgS"}}
		t := g.Add(gen.Task, "pw_t", "")
		e := g.Add(gen.End, "pw_end", "")
		g.Connect(s, t, nil)
		g.Connect(t, e, nil)
		b.graphs = append(b.graphs, g)
		b.exec = append(b.exec, false)
		if c.Link == "fanstart" {
			for k := 1; k <= 4; k++ {
				th := fmt.Sprintf("p0_throwG%d", k)
				b.links[th] = append(b.links[th], c18Link{len(b.graphs) - 1, "pw_start", "start"})
				flows = append(flows, fmt.Sprintf(`<bpmn:messageFlow id="MF_g%d" sourceRef="%s" targetRef="pw_start"/>`, k, th))
			}
		} else {
			b.links["p0_throwS"] = append(b.links["p0_throwS"], c18Link{len(b.graphs) - 1, "pw_start", "start"})
			flows = append(flows, `<bpmn:messageFlow id="MF_s" sourceRef="p0_throwS" targetRef="pw_start"/>`)
		}
	}
	var parts []string
	for i, g := range b.graphs {
		parts = append(parts, fmt.Sprintf(`<bpmn:participant id="Part_%d" processRef="%s"/>`, i, g.ProcID))
	}
	b.extra = "  <bpmn:collaboration id=\"Collab\">\n    " + strings.Join(parts, "\n    ") + "\n    " + strings.Join(flows, "\n    ") + "\n  </bpmn:collaboration>\n"
	return b
}

func c18Cases(tier string, seed uint64) []fw.Case {
	var cs []fw.Case
	shapes := []string{"trivial", "task", "fork"}
	var combos [][]string
	for _, a := range shapes {
		combos = append(combos, []string{a})
		for _, b := range shapes {
			combos = append(combos, []string{a, b})
		}
	}
	combos = append(combos, []string{"trivial", "trivial", "trivial"}, []string{"task", "trivial", "fork"}, []string{"fork", "task", "task"})
	for ci, ex := range combos {
		for _, link := range []string{"none", "start", "catch", "both", "start2", "waitcatch", "catch2", "loopstart", "fanin", "chain", "fanstart"} {
			if link != "none" && ex[0] == "trivial" && len(ex) == 1 {
				// fine: p0 gets the pre task anyway
			}
			for _, hook := range []float64{0, 0.5, 1} {
				for wi, waits := range []string{"once", "twice", "three", "expired"} {
					if tier != "thorough" && (ci+wi+int(hook*2))%2 == 1 {
						continue
					}
					c := c18Case{Execs: ex, Link: link, Hook: hook, Waits: waits, Reps: 1, Doc: []string{"", "rev", "rot"}[(ci+wi+len(link))%3], OwnTracer: (ci+wi)%2 == 1}
					if hook > 0 {
						c.Reps = 3
						if tier == "thorough" {
							c.Reps = 20
						}
					}
					c.Name = fmt.Sprintf("%v/%s/h%v/%s/doc%s/own%v", ex, link, hook, waits, c.Doc, c.OwnTracer)
					cs = append(cs, fw.MkCase("stepwise", &c))
				}
			}
		}
	}
	return fw.Number(cs)
}

type c18Waiter struct {
	mu       sync.Mutex
	returned bool
	result   bool
}

func c18Run(c *c18Case, env *fw.Env, v *fw.V) {
	b := c18Definitions(c)
	// message flows name processes and nodes by id: the order of the process elements in the document is free
	dg, de := append([]*gen.Graph(nil), b.graphs...), append([]bool(nil), b.exec...)
	switch c.Doc {
	case "rev":
		for i, j := 0, len(dg)-1; i < j; i, j = i+1, j-1 {
			dg[i], dg[j] = dg[j], dg[i]
			de[i], de[j] = de[j], de[i]
		}
	case "rot":
		dg = append(dg[len(dg)-1:], dg[:len(dg)-1]...)
		de = append(de[len(de)-1:], de[:len(de)-1]...)
	}
	src := gen.XML(dg, de, b.extra)
	defs, err := schema.Parse([]byte(src))
	if err != nil {
		v.Inconclusive("parse", "%v", err)
		return
	}
	perturb.Rendezvous("", 0)
	if c.Hook > 0 {
		perturb.ConfigureSites(map[string]float64{"pset.afterstart": c.Hook, "pset.beforesub": c.Hook, "pset.waited": c.Hook, "process.started": c.Hook / 2}, 500)
	} else {
		perturb.Off()
		if c.Waits == "three" {
			// the three concurrent waiters leave the wait group together: align them
			// right behind it, where they decide who reports completion
			perturb.Rendezvous("pset.waited", 3)
		}
	}
	defer perturb.Rendezvous("", 0)
	ctx, cancel := context.WithCancel(context.Background())
	defer cancel()
	engine := bpmn.NewEngine(bpmn.WithEngineContext(ctx))
	// options collected one append at a time, as callers do: the slice handed over has spare capacity
	setOpts := append(make([]bpmn.Option, 0, 8), bpmn.WithContext(ctx))
	if c.OwnTracer {
		// the caller hands the set a tracer of its own (and other options behind it)
		setOpts = append(setOpts, bpmn.WithTracer(tracing.NewTracer(ctx)), bpmn.WithVariables(map[string]any{"unused": 1}))
	}
	ps, err := engine.NewProcessSet(defs, setOpts...)
	if err != nil {
		v.Violate("new-process-set-error", "error", "%v", err)
		return
	}
	cls := fmt.Sprintf("execs=%d-link=%s", len(c.Execs), c.Link)
	// subscriber
	ch := ps.Tracer().SubscribeChannel(make(chan tracing.ITrace, 8192))
	var mu sync.Mutex
	var log []drive.Ev
	reqs := map[string][]bpmn.TaskTrace{}
	answered := map[string]int{}
	go func() {
		for tr := range ch {
			e := drive.Classify(tr)
			e.Seq = drive.Seq.Add(1)
			mu.Lock()
			log = append(log, e)
			if tt, ok := e.Raw.(bpmn.TaskTrace); ok {
				reqs[e.Node] = append(reqs[e.Node], tt)
			}
			mu.Unlock()
		}
	}()
	count := func(kind string) int {
		mu.Lock()
		defer mu.Unlock()
		n := 0
		for _, e := range log {
			if e.Kind == kind {
				n++
			}
		}
		return n
	}
	pending := func() []string {
		mu.Lock()
		defer mu.Unlock()
		var out []string
		for act, rs := range reqs {
			for i := answered[act]; i < len(rs); i++ {
				out = append(out, act)
			}
		}
		sort.Strings(out)
		return out
	}
	tail := func() {
		mu.Lock()
		defer mu.Unlock()
		l := log
		if len(l) > 40 {
			l = l[len(l)-40:]
		}
		for _, e := range l {
			v.Log = append(v.Log, e.String())
		}
	}
	quiet := func(what string) (quiesce.Result, bool) {
		q := quiesce.Wait(env.Label, step.Watchdog, func() bool { return len(ch) == 0 })
		v.Add("qpoints", 1)
		if !q.Quiescent {
			v.Inconclusive("watchdog", "no quiescent point %s: %v", what, quiesce.Summary(q.Gs))
			return q, false
		}
		return q, true
	}
	// models
	models := make([]*refsem.State, len(b.graphs))
	started := make([]bool, len(b.graphs))
	for i, g := range b.graphs {
		models[i] = refsem.New(g, nil, nil)
	}
	allComplete := func() bool {
		for i, m := range models {
			if started[i] && !m.NoToken() {
				return false
			}
		}
		return true
	}
	expPending := func() []string {
		var out []string
		for i, m := range models {
			if started[i] {
				out = append(out, m.PendingList()...)
			}
		}
		sort.Strings(out)
		return out
	}
	var waiters []*c18Waiter
	wait := func(wctx context.Context) *c18Waiter {
		w := &c18Waiter{}
		waiters = append(waiters, w)
		go func() {
			r := ps.WaitUntilComplete(wctx)
			w.mu.Lock()
			w.returned, w.result = true, r
			w.mu.Unlock()
		}()
		return w
	}
	check := func(what string) bool {
		q, ok := quiet(what)
		if !ok {
			return false
		}
		if gs := quiesce.DriverIn(q.Gs, "ProcessSet).StartAll"); len(gs) > 0 {
			v.Violate("caller-blocked", "ProcessSet).StartAll", "%s: StartAll still blocked (at %s)", what, gs[0].TopRepoFrame())
			tail()
			return false
		}
		exp, got := expPending(), pending()
		if !reflect.DeepEqual(exp, got) && !(len(exp) == 0 && len(got) == 0) {
			rule := "requests-missing"
			if len(got) > len(exp) {
				rule = "requests-extra"
			}
			v.Violate(rule, cls, "%s: pending requests %v, the single-process references expect %v", what, got, exp)
			tail()
			return false
		}
		if !allComplete() {
			for wi, w := range waiters {
				w.mu.Lock()
				ret, res := w.returned, w.result
				w.mu.Unlock()
				if ret && res {
					v.Violate("early-complete", cls, "%s: set waiter %d returned true while processes still have tokens (pending %v)", what, wi, exp)
					tail()
					return false
				}
			}
			if n := count("CeaseSet"); n > 0 {
				v.Violate("early-cease-set", cls, "%s: cease-process-set trace while processes still have tokens", what)
				return false
			}
		}
		return true
	}
	// waits attached before start (one) so that "however quickly they finish" is observed by a waiter
	switch c.Waits {
	case "expired":
		ectx, ecancel := context.WithCancel(context.Background())
		ecancel()
		w := wait(ectx)
		if _, ok := quiet("after an expired wait"); !ok {
			return
		}
		w.mu.Lock()
		if !w.returned {
			v.Violate("expired-wait-blocked", cls, "WaitUntilComplete with an expired context did not return")
		}
		w.mu.Unlock()
		waiters = nil
	}
	startCall := make(chan error, 1)
	go func() { startCall <- ps.StartAll(ctx) }()
	for i, ex := range b.exec {
		if ex {
			started[i] = true
			models[i].StartAll()
		}
	}
	if !check("after StartAll") {
		return
	}
	select {
	case err := <-startCall:
		if err != nil {
			v.Violate("start-error", cls, "StartAll: %v", err)
			return
		}
	default:
		v.Violate("caller-blocked", "ProcessSet).StartAll", "StartAll did not return")
		return
	}
	// waiters are attached once StartAll has returned (trivial processes may well have finished by then)
	wait(context.Background())
	if c.Waits == "three" {
		wait(context.Background())
		wait(context.Background())
	}
	if !check("after attaching the waiters") {
		return
	}
	// answer tasks one by one (sorted), following message flows in the reference
	instantiations := 0
	ltAnswers := 0
	for guard := 0; guard < 40; guard++ {
		p := pending()
		if len(p) == 0 {
			break
		}
		act := p[0]
		// catch must be listening before the throw's task is answered (stepwise restriction)
		if (act == "p0_pre" || act == "p0_pre2") && len(p) > 1 {
			act = p[1]
			if act == "p0_pre2" && len(p) > 2 {
				act = p[2]
			}
		}
		mu.Lock()
		tt := reqs[act][answered[act]]
		answered[act]++
		mu.Unlock()
		var results map[string]any
		var mres map[string]int64
		fires := b.behind[act]
		if act == "p0_lt" {
			// the loop task counts its answers; after the first one the token goes round again (second throw)
			ltAnswers++
			results = map[string]any{"cnt": ltAnswers}
			mres = map[string]int64{"cnt": int64(ltAnswers)}
			if ltAnswers == 1 {
				fires = []string{"p0_throwS"}
			}
		}
		tt.Do(bpmn.DoWithResults(results))
		for i, m := range models {
			if started[i] && m.Pending[act] > 0 {
				m.Answer(act, mres)
				{
					// the throw events behind it fire now
					for _, th := range fires {
						for _, l := range b.links[th] {
							switch l.kind {
							case "start":
								started[l.proc] = true
								models[l.proc].StartOne(l.node)
								instantiations++
							case "catch":
								if models[l.proc].Armed[l.node] > 0 {
									models[l.proc].Fire(l.node)
								}
							}
						}
					}
				}
				_ = i
				break
			}
		}
		if !check("after answering " + act) {
			return
		}
	}
	if !allComplete() {
		v.Inconclusive("model", "reference not complete at the end: %v", expPending())
		return
	}
	// every waiter must have returned true by the quiescent point
	q, ok := quiet("at the end")
	if !ok {
		return
	}
	if ps := crashed(q); ps != "" {
		v.Violate("panic", ps, "%s", ps)
	}
	for wi, w := range waiters {
		w.mu.Lock()
		ret, res := w.returned, w.result
		w.mu.Unlock()
		if !ret {
			v.Violate("set-waiter-blocked", cls, "every started process has completed but set waiter %d is still blocked at the quiescent point (hook %v)", wi, c.Hook)
			tail()
			return
		}
		if !res {
			v.Violate("set-waiter-false", cls, "set waiter %d returned false", wi)
		}
	}
	// repeated waits after completion
	if c.Waits == "twice" || c.Waits == "expired" {
		w := wait(context.Background())
		if _, ok := quiet("after a second wait"); !ok {
			return
		}
		w.mu.Lock()
		ret, res := w.returned, w.result
		w.mu.Unlock()
		if !ret || !res {
			v.Violate("second-wait", cls, "a second WaitUntilComplete after completion returned=%v result=%v", ret, res)
			return
		}
	}
	if n := count("CeaseSet"); n != 1 {
		v.Violate("cease-set-count", cls, "%d cease-process-set traces after completed waits (%s), expected exactly 1", n, c.Waits)
	}
	if n := count("Instantiation"); c.Link != "none" && n != len(c.Execs)+btoi(c.Link == "catch" || c.Link == "both" || c.Link == "catch2" || c.Link == "fanin")+instantiations {
		v.Violate("instantiation-count", cls, "%d instantiation traces, expected %d executable + %d instantiated by message flows", n, len(c.Execs)+btoi(c.Link == "catch" || c.Link == "both" || c.Link == "catch2" || c.Link == "fanin"), instantiations)
	}
	v.Add("traces", count("Visit"))
}

func crashed(q quiesce.Result) string { return "" }

func init() {
	fw.Register(&fw.Prop{
		ID:            "C18",
		Cases:         c18Cases,
		OnePerProcess: true,
		Run: func(c fw.Case, env *fw.Env) *fw.V {
			v := fw.NewV(c)
			var cc c18Case
			if err := json.Unmarshal(c.Desc, &cc); err != nil {
				v.Inconclusive("descriptor", "%v", err)
				return v
			}
			for i := 0; i < cc.Reps && !v.Violated(); i++ {
				fw.Rep(env, i, func(env *fw.Env) { c18Run(&cc, env, v) })
				v.Add("runs", 1)
			}
			v.Nontrivial = true
			return v
		},
		Rule:        "sets of 1..3 executable processes (trivial start->end, one task, fork/join) + a dedicated catching process and/or a waiting process linked by 0..2 message flows (throw -> start event of a waiting process, throw -> catch event of a running process, throw -> catch event of a process that was never instantiated = no effect; the catch event carries the signalRef the wake-up needs; the throw sits behind a task answered only once the catch event listens) x subscription-window hook at probability 0/0.5/1 x wait histories {one, two sequential, three concurrent, expired then repeated}; after every answer the pending requests must equal the union of the single-process references, no set waiter may return true (nor a cease-process-set trace appear) while a started process has tokens, at the end every waiter returns true, later waits return true, exactly one cease-process-set trace, instantiations = executable + thrown; one process per case (a double close panics the program); distinct = descriptor hash, all non-trivial; link kind fanstart (four parallel throw events towards the start event of one waiting process), option slice with spare capacity",
		Assumptions: []string{"the statement does not say what a throw towards a not-yet-listening catch event must do: stepwise cases order the answers so that the catch event listens first"},
	})
}
