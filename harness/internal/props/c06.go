package props

import (
	"encoding/json"
	"fmt"
	"sync"

	bpmn "github.com/olive-io/bpmn/v2"
	"github.com/olive-io/bpmn/v2/pkg/event"

	"verif/internal/drive"
	"verif/internal/fw"
	"verif/internal/gen"
	"verif/internal/perturb"
	"verif/internal/quiesce"
	"verif/internal/step"
)

type c06Case struct {
	Name string  `json:"name"`
	Alts int     `json:"alts"`  // 2..3 alternatives
	Seq  []int   `json:"seq"`   // event sequence: index of the alternative, Alts = stranger event
	Conc bool    `json:"conc"`  // deliver all from different goroutines behind a barrier
	Hook float64 `json:"hook"`  // ebg.cas / ebg.won probability
	Msg  bool    `json:"msg"`   // message events instead of signals
	Reps int     `json:"reps"`
	// Loop: the branch of alternative 0 leads back to the gateway (second, third ... activation of the same gateway)
	Loop bool `json:"loop,omitempty"`
	// Burst (with Conc): ten non-matching events and then the sequence are handed over back to back from ONE
	// goroutine without letting the instance settle (more than a catch event's inbox holds); the catch events
	// work them off concurrently, so any delivered alternative may win - exactly one
	Burst bool `json:"burst,omitempty"`
	// Two: two tokens at the same gateway (two start events merged in front of it): "together" = both wait when the
	// first event of Seq arrives, "apart" = the second token is sent in (task hold answered) after the first one's
	// winner was answered; Seq[0] is delivered for the first situation, Seq[1] for the second token when apart
	Two string `json:"two,omitempty"`
	// Merge: the branches of the alternatives do not end apart but meet at a merging gateway ("or" = inclusive,
	// "xor" = exclusive) in front of a common task tm: the winner's token alone must pass it
	Merge string `json:"merge,omitempty"`
}

func c06Graph(c *c06Case) *gen.Graph {
	g := gen.NewGraph("c06")
	s := g.Add(gen.Start, "start", "")
	t0 := g.Add(gen.Task, "t0", "")
	eg := g.Add(gen.EventGw, "eg", "")
	g.Connect(s, t0, nil)
	var xm *gen.Node
	if c.Loop {
		xm = g.Add(gen.Xor, "xm", "")
		g.Connect(t0, xm, nil)
		g.Connect(xm, eg, nil)
	} else {
		g.Connect(t0, eg, nil)
	}
	var mg *gen.Node
	if c.Merge != "" {
		if c.Merge == "or" {
			mg = g.Add(gen.Or, "mg", "")
		} else {
			mg = g.Add(gen.Xor, "mg", "")
		}
		tm := g.Add(gen.Task, "tm", "")
		em := g.Add(gen.End, "em", "")
		g.Connect(mg, tm, nil)
		g.Connect(tm, em, nil)
	}
	for i := 0; i < c.Alts; i++ {
		ce := g.Add(gen.Catch, fmt.Sprintf("c%d", i), "")
		if c.Msg {
			ce.Events = []gen.EventDef{{Type: "message", Ref: fmt.Sprintf("ev%d", i)}}
		} else {
			ce.Events = []gen.EventDef{{Type: "signal", Ref: fmt.Sprintf("ev%d", i)}}
		}
		t := g.Add(gen.Task, fmt.Sprintf("b%d", i), "")
		g.Connect(eg, ce, nil)
		g.Connect(ce, t, nil)
		if c.Loop && i == 0 {
			g.Connect(t, xm, nil)
		} else if mg != nil {
			g.Connect(t, mg, nil)
		} else {
			e := g.Add(gen.End, fmt.Sprintf("e%d", i), "")
			g.Connect(t, e, nil)
		}
	}
	return g
}

func c06Event(c *c06Case, i int) event.IEvent {
	name := fmt.Sprintf("ev%d", i)
	if i >= c.Alts {
		name = "stranger"
	}
	if c.Msg {
		return event.NewMessageEvent(name, nil)
	}
	return event.NewSignalEvent(name)
}

func c06Cases(tier string, seed uint64) []fw.Case {
	var cs []fw.Case
	for alts := 2; alts <= 3; alts++ {
		var seqs [][]int
		var rec func(prefix []int)
		rec = func(prefix []int) {
			if len(prefix) > 0 {
				seqs = append(seqs, append([]int(nil), prefix...))
			}
			if len(prefix) == 4 {
				return
			}
			for e := 0; e <= alts; e++ {
				rec(append(prefix, e))
			}
		}
		rec(nil)
		for si, sq := range seqs {
			msg := si%2 == 1
			// sequential
			for _, hook := range []float64{0, 1} {
				if hook == 1 && si%3 != 0 && tier != "thorough" {
					continue
				}
				c := c06Case{Alts: alts, Seq: sq, Hook: hook, Msg: msg, Reps: 1}
				c.Name = fmt.Sprintf("seq/a%d-%v-h%v", alts, sq, hook)
				cs = append(cs, fw.MkCase("sequential", &c))
			}
			// re-entry: alternative 0 loops back to the gateway; sequences that start with it
			if len(sq) >= 2 && sq[0] == 0 {
				for _, conc := range []bool{false, true} {
					hook := float64(si % 2)
					reps := 1
					if conc {
						reps = 5
						if tier == "thorough" {
							reps = 50
						}
					}
					c := c06Case{Alts: alts, Seq: sq, Hook: hook, Msg: msg, Reps: reps, Loop: true, Conc: conc}
					c.Name = fmt.Sprintf("loop/a%d-%v-conc%v-h%v", alts, sq, conc, hook)
					cs = append(cs, fw.MkCase("loop", &c))
				}
			}
			// concurrent: only sequences with >= 2 events
			if len(sq) >= 2 {
				for _, hook := range []float64{0, 0.5, 1} {
					if tier != "thorough" && (si+int(hook*2))%4 != 0 {
						continue
					}
					reps := 25
					if tier == "thorough" {
						reps = 200
					}
					c := c06Case{Alts: alts, Seq: sq, Conc: true, Hook: hook, Msg: msg, Reps: reps}
					c.Name = fmt.Sprintf("conc/a%d-%v-h%v", alts, sq, hook)
					cs = append(cs, fw.MkCase("concurrent", &c))
				}
				// the branches meet again at a merging gateway
				for hi, hook := range []float64{0, 0.5} {
					if tier != "thorough" && (si+hi)%3 != 0 {
						continue
					}
					reps := 10
					if tier == "thorough" {
						reps = 100
					}
					c := c06Case{Alts: alts, Seq: sq, Conc: true, Hook: hook, Msg: msg, Reps: reps, Merge: []string{"or", "or", "or", "xor"}[(si/3)%4]}
					if tier == "thorough" {
						c.Merge = []string{"or", "xor"}[(si/3+hi)%2]
					}
					c.Name = fmt.Sprintf("merge-%s/a%d-%v-h%v", c.Merge, alts, sq, hook)
					cs = append(cs, fw.MkCase("merge", &c))
				}
				for _, hook := range []float64{0, 0.5} {
					if tier != "thorough" && (si+int(hook*2))%3 != 0 {
						continue
					}
					c := c06Case{Alts: alts, Seq: sq, Conc: true, Burst: true, Hook: hook, Msg: msg, Reps: 5}
					if tier == "thorough" {
						c.Reps = 40
					}
					c.Name = fmt.Sprintf("burst/a%d-%v-h%v", alts, sq, hook)
					cs = append(cs, fw.MkCase("burst", &c))
				}
			}
		}
	}
	for alts := 2; alts <= 3; alts++ {
		for a := 0; a < alts; a++ {
			for b := 0; b < alts; b++ {
				for _, two := range []string{"together", "apart"} {
					if two == "together" && b != 0 {
						continue
					}
					c := c06Case{Alts: alts, Seq: []int{a, b}, Two: two, Msg: (a+b)%2 == 1, Reps: 1}
					c.Name = fmt.Sprintf("two/%s/a%d-%v", two, alts, c.Seq)
					cs = append(cs, fw.MkCase("two-tokens", &c))
				}
			}
		}
	}
	return fw.Number(cs)
}

// c06RunTwo: s1 -> XM, s2 -> hold -> XM (or s2 -> XM when both come together), XM -> EG -> c_i -> b_i -> end_i.
// Every token that reaches the gateway gets a determination of its own: the alternative whose event arrives
// continues once per waiting token, every token's other alternatives are withdrawn, the instance completes.
func c06RunTwo(c *c06Case, env *fw.Env, v *fw.V) {
	g := gen.NewGraph("c06two")
	s1 := g.Add(gen.Start, "s1", "")
	s2 := g.Add(gen.Start, "s2", "")
	xm := g.Add(gen.Xor, "xm", "")
	eg := g.Add(gen.EventGw, "eg", "")
	g.Connect(s1, xm, nil)
	if c.Two == "apart" {
		hold := g.Add(gen.Task, "hold", "")
		g.Connect(s2, hold, nil)
		g.Connect(hold, xm, nil)
	} else {
		g.Connect(s2, xm, nil)
	}
	g.Connect(xm, eg, nil)
	for i := 0; i < c.Alts; i++ {
		ce := g.Add(gen.Catch, fmt.Sprintf("c%d", i), "")
		if c.Msg {
			ce.Events = []gen.EventDef{{Type: "message", Ref: fmt.Sprintf("ev%d", i)}}
		} else {
			ce.Events = []gen.EventDef{{Type: "signal", Ref: fmt.Sprintf("ev%d", i)}}
		}
		t := g.Add(gen.Task, fmt.Sprintf("b%d", i), "")
		e := g.Add(gen.End, fmt.Sprintf("e%d", i), "")
		g.Connect(eg, ce, nil)
		g.Connect(ce, t, nil)
		g.Connect(t, e, nil)
	}
	defs, _, err := step.Parse(g)
	if err != nil {
		v.Inconclusive("parse", "%v", err)
		return
	}
	perturb.Rendezvous("", 0)
	perturb.Off()
	in, err := drive.New(env.Label, defs, drive.Opts{ExtraSubs: 1})
	if err != nil {
		v.Violate("new-process-error", "error", "%v", err)
		return
	}
	defer in.Cancel()
	cls := fmt.Sprintf("alts=%d-two-tokens-%s", c.Alts, c.Two)
	quiet := func(what string) bool {
		q := in.Quiesce(step.Watchdog)
		v.Add("qpoints", 1)
		if !q.Quiescent {
			v.Inconclusive("watchdog", "no quiescent point %s: %v", what, quiesce.Summary(q.Gs))
			return false
		}
		if gs := quiesce.DriverIn(q.Gs, "Process).ConsumeEvent"); len(gs) > 0 {
			v.Violate("consume-blocked", cls, "%s: ConsumeEvent still blocked (at %s)", what, gs[0].TopRepoFrame())
			return false
		}
		return true
	}
	want := map[string]int{}
	check := func(what string) bool {
		if !quiet(what) {
			return false
		}
		for i := 0; i < c.Alts; i++ {
			b := fmt.Sprintf("b%d", i)
			if got := in.Count("Task", b); got != want[b] {
				v.Violate("winner-count", cls, "%s: branch %s requested %d times, expected %d (sequence %v)", what, b, got, want[b], c.Seq)
				v.Log = in.Tail(50)
				return false
			}
		}
		return true
	}
	answerAll := func() {
		for _, r := range in.Pending() {
			if r.Act != "hold" {
				in.Answer(r, bpmn.DoWithResults(nil))
			}
		}
	}
	deliver := func(i int) {
		ev := c06Event(c, i)
		in.Go("ConsumeEvent", func() error { _, err := in.Proc.ConsumeEvent(ev); return err })
	}
	if err := in.Start(); err != nil {
		v.Violate("start-error", "error", "%v", err)
		return
	}
	if !check("after start") {
		return
	}
	waiting := 1
	if c.Two == "together" {
		waiting = 2
	}
	deliver(c.Seq[0])
	want[fmt.Sprintf("b%d", c.Seq[0])] += waiting
	if !check("after the first event") {
		return
	}
	answerAll()
	if !check("after answering the winners") {
		return
	}
	if c.Two == "apart" {
		for _, r := range in.Pending() {
			if r.Act == "hold" {
				in.Answer(r, bpmn.DoWithResults(nil))
			}
		}
		if !check("after the second token reached the gateway") {
			return
		}
		deliver(c.Seq[1])
		want[fmt.Sprintf("b%d", c.Seq[1])]++
		if !check("after the second token's event") {
			return
		}
		answerAll()
		if !check("after answering the second winner") {
			return
		}
	}
	if n := in.Count("Determination", "eg"); n != 2 {
		v.Violate("determination-count", cls, "%d determination traces for two tokens", n)
	}
	if n := in.Count("CeaseFlow", ""); n != 1 {
		v.Violate("not-complete", cls, "both tokens' winners ended but %d cease-flow traces (sequence %v)", n, c.Seq)
		v.Log = in.Tail(50)
		return
	}
	for i := 0; i < c.Alts; i++ {
		deliver(i)
	}
	if !check("after late deliveries") {
		return
	}
}

func c06Run(c *c06Case, env *fw.Env, v *fw.V) {
	if c.Two != "" {
		c06RunTwo(c, env, v)
		return
	}
	if c.Loop {
		c06RunLoop(c, env, v)
		return
	}
	g := c06Graph(c)
	defs, _, err := step.Parse(g)
	if err != nil {
		v.Inconclusive("parse", "%v", err)
		return
	}
	perturb.Rendezvous("", 0)
	if c.Hook > 0 {
		perturb.ConfigureSites(map[string]float64{"ebg.cas": c.Hook, "ebg.won": c.Hook, "catch.consume": c.Hook / 2, "catch.event": c.Hook / 2}, 400)
	} else {
		perturb.Off()
		if c.Conc && !c.Burst {
			// no delays, but the competing flows are aligned in front of the determination:
			// all distinct alternatives of the batch leave the hook at the same instant
			distinct := map[int]bool{}
			for _, e := range c.Seq {
				if e < c.Alts {
					distinct[e] = true
				}
			}
			perturb.Rendezvous("ebg.cas", len(distinct))
		}
	}
	defer perturb.Rendezvous("", 0)
	in, err := drive.New(env.Label, defs, drive.Opts{ExtraSubs: 1})
	if err != nil {
		v.Violate("new-process-error", "error", "%v", err)
		return
	}
	defer in.Cancel()
	cls := fmt.Sprintf("alts=%d-conc=%v", c.Alts, c.Conc)
	if c.Burst {
		cls = fmt.Sprintf("alts=%d-burst", c.Alts)
	}
	fail := func() { v.Log = in.Tail(50) }
	quiet := func(what string) (quiesce.Result, bool) {
		q := in.Quiesce(step.Watchdog)
		v.Add("qpoints", 1)
		if !q.Quiescent {
			v.Inconclusive("watchdog", "no quiescent point %s: %v", what, quiesce.Summary(q.Gs))
			return q, false
		}
		if gs := quiesce.DriverIn(q.Gs, "Process).ConsumeEvent"); len(gs) > 0 {
			v.Violate("consume-blocked", cls, "%s: %d ConsumeEvent caller(s) still blocked at the quiescent point (at %s)", what, len(gs), gs[0].TopRepoFrame())
			fail()
			return q, false
		}
		return q, true
	}
	w := in.Wait(in.Ctx)
	if err := in.Start(); err != nil {
		v.Violate("start-error", "error", "%v", err)
		return
	}
	if _, ok := quiet("after start"); !ok {
		return
	}
	for _, r := range in.Pending() {
		in.Answer(r, bpmn.DoWithResults(nil))
	}
	if _, ok := quiet("after answering t0"); !ok {
		return
	}
	nListening := in.Count("Listening", "")
	if nListening != c.Alts {
		v.Violate("not-armed", cls, "%d alternatives listening after the gateway was reached, expected %d", nListening, c.Alts)
		fail()
		return
	}
	branchReqs := func() map[string]int {
		m := map[string]int{}
		for _, r := range in.Reqs() {
			if r.Act != "t0" && r.Act != "tm" {
				m[r.Act]++
			}
		}
		return m
	}
	total := func(m map[string]int) int {
		n := 0
		for _, k := range m {
			n += k
		}
		return n
	}
	firstReal := -1
	for _, e := range c.Seq {
		if e < c.Alts {
			firstReal = e
			break
		}
	}
	if c.Burst {
		var evs []event.IEvent
		for k := 0; k < 10; k++ {
			evs = append(evs, c06Event(c, c.Alts))
		}
		for _, e := range c.Seq {
			evs = append(evs, c06Event(c, e))
		}
		in.Go("ConsumeEvent", func() error {
			for _, ev := range evs {
				if _, err := in.Proc.ConsumeEvent(ev); err != nil {
					return err
				}
			}
			return nil
		})
		if _, ok := quiet("after the burst"); !ok {
			return
		}
	} else if c.Conc {
		var wg sync.WaitGroup
		barrier := make(chan struct{})
		for _, e := range c.Seq {
			wg.Add(1)
			ev := c06Event(c, e)
			go func() {
				defer wg.Done()
				<-barrier
				in.Proc.ConsumeEvent(ev)
			}()
		}
		close(barrier)
		if _, ok := quiet("after concurrent delivery"); !ok {
			return
		}
		wg.Wait()
	} else {
		winner := -1
		for i, e := range c.Seq {
			ev := c06Event(c, e)
			in.Go("ConsumeEvent", func() error { _, err := in.Proc.ConsumeEvent(ev); return err })
			if _, ok := quiet(fmt.Sprintf("after delivering event #%d", i)); !ok {
				return
			}
			if winner < 0 && e < c.Alts {
				winner = e
			}
			m := branchReqs()
			if winner < 0 {
				if total(m) != 0 {
					v.Violate("stranger-effect", cls, "a non-matching event made a branch continue: %v", m)
					fail()
					return
				}
				continue
			}
			if m[fmt.Sprintf("b%d", winner)] != 1 || total(m) != 1 {
				v.Violate("winner-count", cls, "after events %v the branch requests are %v; expected exactly one request, for the first delivered alternative b%d", c.Seq[:i+1], m, winner)
				fail()
				return
			}
		}
	}
	m := branchReqs()
	if firstReal < 0 {
		if total(m) != 0 {
			v.Violate("stranger-effect", cls, "only non-matching events were delivered but a branch continued: %v", m)
			fail()
		}
		return
	}
	if total(m) != 1 {
		v.Violate("winner-count", cls, "events %v delivered (concurrent=%v): branch requests %v, expected exactly one in total", c.Seq, c.Conc, m)
		fail()
		return
	}
	if n := in.Count("Determination", "eg"); n != 1 {
		v.Violate("determination-count", cls, "%d determination traces, expected 1", n)
	}
	// let the winner finish: the instance must complete, losers must be withdrawn
	for _, r := range in.Pending() {
		in.Answer(r, bpmn.DoWithResults(nil))
	}
	q, ok := quiet("after answering the winner's task")
	if !ok {
		return
	}
	if c.Merge != "" {
		// the winner's token, alone, passes the merging gateway: the task behind it is requested once
		if n := in.Count("Task", "tm"); n != 1 {
			v.Violate("merge-not-passed", cls+"-merge="+c.Merge, "the winner's branch ended at the %s merge but the task behind it was requested %d times (events %v)", c.Merge, n, c.Seq)
			fail()
			return
		}
		for _, r := range in.Pending() {
			in.Answer(r, bpmn.DoWithResults(nil))
		}
		if q, ok = quiet("after answering the task behind the merge"); !ok {
			return
		}
	}
	if n := in.Count("CeaseFlow", ""); n != 1 {
		var blocked []string
		for _, g := range quiesce.Engine(q.Gs) {
			if g.InFunc("flow).Start") || g.InFunc("eventBasedGateway") {
				blocked = append(blocked, g.TopRepoFrame()+"["+g.State+"]")
			}
		}
		v.Violate("not-complete", cls, "winner's branch ended but %d cease-flow traces; flow goroutines still blocked: %v", n, blocked)
		fail()
		return
	}
	if ret, res, _ := in.WaiterState(w); !ret || !res {
		v.Violate("waiter-blocked", cls, "instance complete but WaitUntilComplete returned=%v result=%v", ret, res)
	}
	// later deliveries of the losing events have no effect
	for i := 0; i < c.Alts; i++ {
		ev := c06Event(c, i)
		in.Go("ConsumeEvent", func() error { _, err := in.Proc.ConsumeEvent(ev); return err })
	}
	if _, ok := quiet("after late deliveries"); !ok {
		return
	}
	if m2 := branchReqs(); total(m2) != 1 {
		v.Violate("late-delivery-effect", cls, "events delivered after the determination made branches continue: %v", m2)
		fail()
	}
	v.Add("traces", len(in.Log(0)))
}

// c06RunLoop: every activation of the same gateway has exactly one winner. The first
// event of the sequence is delivered alone (alternative 0: its branch loops back and
// re-arms the gateway); the rest is delivered one by one, or (Conc) all at once from
// different goroutines. A winner's task is answered as soon as it is requested.
func c06RunLoop(c *c06Case, env *fw.Env, v *fw.V) {
	g := c06Graph(c)
	defs, _, err := step.Parse(g)
	if err != nil {
		v.Inconclusive("parse", "%v", err)
		return
	}
	perturb.Rendezvous("", 0)
	if c.Hook > 0 {
		perturb.ConfigureSites(map[string]float64{"ebg.cas": c.Hook, "ebg.won": c.Hook, "catch.consume": c.Hook / 2, "catch.event": c.Hook / 2}, 400)
	} else {
		perturb.Off()
	}
	in, err := drive.New(env.Label, defs, drive.Opts{ExtraSubs: 1})
	if err != nil {
		v.Violate("new-process-error", "error", "%v", err)
		return
	}
	defer in.Cancel()
	cls := fmt.Sprintf("alts=%d-conc=%v-reentry", c.Alts, c.Conc)
	fail := func() { v.Log = in.Tail(60) }
	quiet := func(what string) bool {
		q := in.Quiesce(step.Watchdog)
		v.Add("qpoints", 1)
		if !q.Quiescent {
			v.Inconclusive("watchdog", "no quiescent point %s: %v", what, quiesce.Summary(q.Gs))
			return false
		}
		if gs := quiesce.DriverIn(q.Gs, "Process).ConsumeEvent"); len(gs) > 0 {
			v.Violate("consume-blocked", cls, "%s: %d ConsumeEvent caller(s) still blocked at the quiescent point (at %s)", what, len(gs), gs[0].TopRepoFrame())
			fail()
			return false
		}
		return true
	}
	if err := in.Start(); err != nil {
		v.Violate("start-error", "error", "%v", err)
		return
	}
	if !quiet("after start") {
		return
	}
	for _, r := range in.Pending() {
		in.Answer(r, bpmn.DoWithResults(nil))
	}
	if !quiet("after answering t0") {
		return
	}
	// model
	activations, done := 1, false
	want := map[string]int{} // requests per branch task
	armed := true
	branch := func() map[string]int {
		m := map[string]int{}
		for _, r := range in.Reqs() {
			if r.Act != "t0" {
				m[r.Act]++
			}
		}
		return m
	}
	// whether every alternative listens again is decided by behaviour (the next matching event wins),
	// not by counting listening traces: a catch event that stayed armed emits none on re-entry
	checkArmed := func(what string) bool { return true }
	// answer the winner's task; alternative 0 loops back
	settle := func(what string) bool {
		for guard := 0; guard < 4; guard++ {
			p := in.Pending()
			if len(p) == 0 {
				return true
			}
			for _, r := range p {
				in.Answer(r, bpmn.DoWithResults(nil))
			}
			if !quiet(what + ", after answering the winner's task") {
				return false
			}
		}
		return true
	}
	apply := func(e int) {
		if !armed || done || e >= c.Alts {
			return
		}
		want[fmt.Sprintf("b%d", e)]++
		if e == 0 {
			activations++
		} else {
			armed, done = false, true
		}
	}
	compare := func(what string) bool {
		got := branch()
		if fmt.Sprint(got) != fmt.Sprint(want) {
			rule := "winner-count"
			v.Violate(rule, cls, "%s: branch requests %v, expected %v (events so far as listed; every activation of the gateway has exactly one winner)", what, got, want)
			fail()
			return false
		}
		return true
	}
	if !checkArmed("after the first activation") {
		return
	}
	rest := c.Seq
	if c.Conc {
		// first event alone, the rest at once
		e := c.Seq[0]
		ev := c06Event(c, e)
		in.Go("ConsumeEvent", func() error { _, err := in.Proc.ConsumeEvent(ev); return err })
		if !quiet("after the first event") {
			return
		}
		apply(e)
		if !compare(fmt.Sprintf("after event %d", e)) || !settle("first event") {
			return
		}
		if !checkArmed("after the loop came back to the gateway") {
			return
		}
		rest = c.Seq[1:]
		var wg sync.WaitGroup
		barrier := make(chan struct{})
		for _, e := range rest {
			wg.Add(1)
			ev := c06Event(c, e)
			go func() {
				defer wg.Done()
				<-barrier
				in.Proc.ConsumeEvent(ev)
			}()
		}
		close(barrier)
		if !quiet("after concurrent delivery in the second activation") {
			return
		}
		wg.Wait()
		// exactly one winner among the distinct real alternatives delivered (none if only strangers)
		got := branch()
		extra := 0
		var winner string
		for k, n := range got {
			d := n - want[k]
			if d < 0 || d > 1 {
				extra = 99
			}
			if d == 1 {
				extra++
				winner = k
			}
		}
		real := false
		for _, e := range rest {
			if e < c.Alts {
				real = true
			}
		}
		if (real && extra != 1) || (!real && extra != 0) {
			v.Violate("winner-count", cls, "second activation, events %v delivered at once: branch requests %v (before: %v), expected exactly one more in total", rest, got, want)
			fail()
			return
		}
		if winner != "" {
			want[winner]++
			if winner == "b0" {
				activations++
			} else {
				armed, done = false, true
			}
		}
		if !settle("concurrent delivery") {
			return
		}
		// events of the batch that lost or came too late are gone: whatever is armed now starts afresh
		if !done {
			if !checkArmed("after the second activation was won by the looping alternative") {
				return
			}
		}
	} else {
		for i, e := range rest {
			ev := c06Event(c, e)
			in.Go("ConsumeEvent", func() error { _, err := in.Proc.ConsumeEvent(ev); return err })
			if !quiet(fmt.Sprintf("after delivering event #%d", i)) {
				return
			}
			apply(e)
			if !compare(fmt.Sprintf("after events %v", c.Seq[:i+1])) {
				return
			}
			if !settle(fmt.Sprintf("event #%d", i)) {
				return
			}
			if !done && !checkArmed(fmt.Sprintf("after events %v", c.Seq[:i+1])) {
				return
			}
		}
	}
	if n := in.Count("Determination", "eg"); n != activations-1+btoi(done) {
		v.Violate("determination-count", cls, "%d determination traces, expected %d (activations %d, finished %v)", n, activations-1+btoi(done), activations, done)
		fail()
		return
	}
	if !done {
		// finish through alternative 1
		ev := c06Event(c, 1)
		in.Go("ConsumeEvent", func() error { _, err := in.Proc.ConsumeEvent(ev); return err })
		if !quiet("after the finishing event") {
			return
		}
		apply(1)
		if !compare("after the finishing event") || !settle("finishing event") {
			return
		}
	}
	if n := in.Count("CeaseFlow", ""); n != 1 {
		v.Violate("not-complete", cls, "winner's branch ended but %d cease-flow traces after %d activations", n, activations)
		fail()
		return
	}
	// late deliveries have no effect
	for i := 0; i < c.Alts; i++ {
		ev := c06Event(c, i)
		in.Go("ConsumeEvent", func() error { _, err := in.Proc.ConsumeEvent(ev); return err })
	}
	if !quiet("after late deliveries") {
		return
	}
	if !compare("after late deliveries") {
		return
	}
	v.Add("activations", activations)
	v.Add("traces", len(in.Log(0)))
}

func init() {
	fw.Register(&fw.Prop{
		ID:    "C06",
		Cases: c06Cases,
		Run: func(c fw.Case, env *fw.Env) *fw.V {
			v := fw.NewV(c)
			var cc c06Case
			if err := json.Unmarshal(c.Desc, &cc); err != nil {
				v.Inconclusive("descriptor", "%v", err)
				return v
			}
			for i := 0; i < cc.Reps && !v.Violated(); i++ {
				fw.Rep(env, i, func(env *fw.Env) { c06Run(&cc, env, v) })
				v.Add("runs", 1)
			}
			v.Nontrivial = true
			return v
		},
		Rule:        "gateways with 2 and 3 alternatives x all non-empty sequences of length <= 4 over the alternatives' events plus a stranger event, delivered sequentially (quiescence between deliveries; winner must be the first delivered alternative) and concurrently from different goroutines behind a barrier (exactly one request in total), signal and message events, determination hooks at probability 0/0.5/1; then the winner's task is answered: instance completes, waiter returns, late deliveries of every alternative have no effect; re-entry variants: alternative 0's branch loops back to the same gateway (2..4 activations), every activation must re-arm all alternatives and have exactly one winner, sequentially and with the second activation's events delivered at once; all cases non-trivial; distinct = descriptor hash; burst variants: ten non-matching events and then the sequence handed over back to back from one goroutine (exactly one winner among the delivered alternatives, completion, late deliveries without effect); two tokens at one gateway (together, or the second after the first was decided): a determination per token, the arriving alternative continues once per waiting token, completion; merge family: the alternatives' branches meet at an inclusive or exclusive merge in front of a common task requested exactly once",
		Exhaustive:  func(tier string) bool { return tier == "thorough" },
		Assumptions: []string{"events are delivered through Process.ConsumeEvent"},
	})
}
