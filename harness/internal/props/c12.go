package props

import (
	"encoding/json"
	"fmt"
	"reflect"

	bpmn "github.com/olive-io/bpmn/v2"

	"verif/internal/drive"
	"verif/internal/perturb"
	"verif/internal/quiesce"

	"verif/internal/fw"
	"verif/internal/gen"
	"verif/internal/step"
)

type c12Case struct {
	Name   string           `json:"name"`
	AST    *gen.Block       `json:"ast"`
	Wrap   int              `json:"wrap"`   // pre-order index of the wrapped block
	Levels int              `json:"levels"` // 1..3
	Vars   map[string]int64 `json:"vars"`
	Order  []string         `json:"order"`
	Storm  bool             `json:"storm"`
	Reps   int              `json:"reps"`
	Family string           `json:"family"`
	// Overlap: two tokens enter the same sub-process node while the other is still inside; Hist is the order
	// of the actions (a, b = send the first / second token in; i = answer the oldest pending inner task)
	Overlap bool     `json:"overlap,omitempty"`
	Hist    []string `json:"hist,omitempty"`
	// Events: a catch event inside a sub-process 1..3 levels deep (the C11 scenario `insub…`): the inner
	// token waits for an event handed to the instance; Hist is the history of deliveries and answers
	Events string `json:"events,omitempty"` // shape
	Kind   string `json:"kind,omitempty"`   // signal | message | messageop
}

func c12Cases(tier string, seed uint64) []fw.Case {
	rng := fw.NewRng(seed, "C12")
	progs := forcedPairs(rng)
	nrand, depth, budget, maxData, maxOrders := 60, 3, 12, 2, 4
	if tier == "thorough" {
		nrand, depth, budget, maxData, maxOrders = 600, 4, 20, 4, 12
	}
	// PRNG programs without inclusive gateways (their recorded defects are C01/C05 matters)
	rp := randomProgs(rng, nrand*2, depth, budget)
	k := 0
	for _, p := range rp {
		if p.Family == "core" && k < nrand {
			progs = append(progs, p)
			k++
		}
	}
	var cs []fw.Case
	// two tokens inside one sub-process node at the same time
	for _, h := range [][]string{{"a", "b", "i", "i"}, {"a", "i", "b", "i"}, {"b", "a", "i", "i"}, {"a", "b"}, {"a", "b", "i"}} {
		c := c12Case{Name: fmt.Sprintf("overlap/%v", h), Overlap: true, Hist: h}
		cs = append(cs, fw.MkCase("overlap", &c))
	}
	// content that waits for events: a catch event inside a sub-process one, two and three levels deep; all
	// histories up to length 3 / 4 over {matching event, other event, answer t0, answer t1}, then drained
	evLen := 3
	if tier == "thorough" {
		evLen = 4
	}
	for si, shape := range []string{"insub", "insub2", "insub3"} {
		alpha := []string{"e:r1", "e:zz", "a:t0", "a:t1"}
		var rec func(p []string)
		hi := 0
		rec = func(p []string) {
			if len(p) > 0 {
				hi++
				c := c12Case{Name: fmt.Sprintf("events/%s/%v", shape, p), Events: shape, Kind: []string{"signal", "message", "messageop"}[(hi+si)%3], Hist: append([]string(nil), p...)}
				cs = append(cs, fw.MkCase("inner-events", &c))
			}
			if len(p) == evLen {
				return
			}
			for _, a := range alpha {
				rec(append(p, a))
			}
		}
		rec(nil)
	}
	for _, p := range progs {
		nblocks := p.AST.Count()
		// wrap: each block kind at least once over the corpus + PRNG choices
		var choices []int
		for i := 0; i < 3; i++ {
			choices = append(choices, 1+rng.Intn(nblocks-1))
		}
		for ci, w := range choices {
			levels := 1 + (ci+rng.Intn(3))%3
			wrapped := gen.Wrap(p.AST, w, levels)
			if wrapped == nil {
				continue
			}
			// "spliced in place" is only meaningful for a block all of whose tokens reach
			// its exit: a branch that ends in its own end event consumes the token when
			// inlined, but merely ends the sub-process (whose parent then continues) when
			// wrapped — BPMN semantics differ there, so such blocks are not wrapped for the
			// differential comparison.
			if earlyEnd(nthBlock(p.AST, w)) {
				continue
			}
			g := gen.Lower("p", p.AST)
			for di, vars := range assignments(p.NV, maxData, rng) {
				zeroData(vars, p.AST)
				base := step.Case{G: g, Vars: vars, Lenient: hasOr(g)}
				orders, _ := step.Orders(&base, maxOrders, rng)
				if len(orders) > maxOrders {
					orders = orders[:maxOrders]
				}
				for oi, o := range orders {
					c := c12Case{Name: fmt.Sprintf("%s/w%d-l%d/d%d/o%d", p.Name, w, levels, di, oi), AST: p.AST, Wrap: w, Levels: levels, Vars: vars, Order: o, Family: p.Family}
					cs = append(cs, fw.MkCase("differential", &c))
				}
				if di == 0 {
					reps := 2
					if tier == "thorough" {
						reps = 10
					}
					c := c12Case{Name: fmt.Sprintf("%s/w%d-l%d/storm", p.Name, w, levels), AST: p.AST, Wrap: w, Levels: levels, Vars: vars, Storm: true, Reps: reps, Family: p.Family}
					cs = append(cs, fw.MkCase("storm", &c))
				}
			}
		}
	}
	return fw.Number(cs)
}

func nthBlock(root *gen.Block, n int) *gen.Block {
	i := -1
	var found *gen.Block
	root.Walk(func(b *gen.Block) {
		i++
		if i == n {
			found = b
		}
	})
	return found
}

func earlyEnd(b *gen.Block) bool {
	if b == nil {
		return true
	}
	early := false
	b.Walk(func(x *gen.Block) {
		if x.Kind == "condtask" {
			early = true
		}
		for _, e := range x.Ends {
			if e {
				early = true
			}
		}
	})
	return early
}

func c12Run(c *c12Case, env *fw.Env, v *fw.V) {
	plain := gen.Lower("p", c.AST)
	wrapped := gen.Lower("p", gen.Wrap(c.AST, c.Wrap, c.Levels))
	cls := fmt.Sprintf("%s|levels=%d", c.Family, c.Levels)
	if c.Storm {
		for i := 0; i < c.Reps && !v.Violated(); i++ {
			fw.Rep(env, i, func(env *fw.Env) {
				sc := step.Case{G: wrapped, Vars: c.Vars, Storm: true, Hooks: 0.3}
				step.RunStorm("C12", &sc, env, v)
				v.Add("storm-runs", 1)
			})
		}
		reclass(v, cls)
		return
	}
	// baseline: the unwrapped program (its own divergences are C01's business)
	bv := fw.NewV(fw.Case{})
	var br, wr *step.Result
	fw.Rep(env, 0, func(env *fw.Env) {
		sc := step.Case{G: plain, Vars: c.Vars, Order: c.Order, Lenient: hasOr(plain)}
		br = step.RunStepwise("C12", &sc, env, bv)
	})
	if bv.Violated() || br.Aborted {
		v.Inconclusive("baseline", "unwrapped program does not follow the reference itself: %v", bv.Findings)
		return
	}
	fw.Rep(env, 1, func(env *fw.Env) {
		sc := step.Case{G: wrapped, Vars: c.Vars, Order: c.Order, Waiters: 1, Lenient: hasOr(plain)}
		wr = step.RunStepwise("C12", &sc, env, v)
	})
	reclass(v, cls)
	if v.Violated() || wr.Aborted {
		return
	}
	if !reflect.DeepEqual(br.Trace, wr.Trace) {
		v.Violate("differs-from-inlined", cls, "pending requests per step differ: inlined %v, wrapped %v", br.Trace, wr.Trace)
	}
	if !wr.Complete || !br.Complete {
		return
	}
	v.Add("steps", wr.Steps)
	nsub := 0
	for _, n := range wrapped.Nodes {
		if n.Kind == gen.Sub {
			nsub++
		}
	}
	v.Add("subprocess-nodes", nsub)
	v.Add("landmarks", wr.Inst.Count("LandMark", ""))
}

func reclass(v *fw.V, cls string) {
	for i := range v.Findings {
		f := &v.Findings[i]
		if f.Status == fw.Violation && f.Class != cls {
			f.Msg = "[" + f.Class + "] " + f.Msg
			f.Class = cls
		}
	}
}

// c12Overlap: start -> fork -> ta, tb -> XM -> S{ start -> inner -> end } -> after -> end. Every token that
// enters S makes `inner` be requested once; every answered `inner` lets one parent token continue (`after`).
func c12Overlap(c *c12Case, env *fw.Env, v *fw.V) {
	g := gen.NewGraph("c12o")
	s := g.Add(gen.Start, "start", "")
	f := g.Add(gen.And, "fork", "")
	ta := g.Add(gen.Task, "ta", "")
	tb := g.Add(gen.Task, "tb", "")
	xm := g.Add(gen.Xor, "XM", "")
	sp := g.Add(gen.Sub, "S", "")
	is := g.Add(gen.Start, "is", "S")
	inner := g.Add(gen.Task, "inner", "S")
	ie := g.Add(gen.End, "ie", "S")
	after := g.Add(gen.Task, "after", "")
	e := g.Add(gen.End, "end", "")
	g.Connect(s, f, nil)
	g.Connect(f, ta, nil)
	g.Connect(f, tb, nil)
	g.Connect(ta, xm, nil)
	g.Connect(tb, xm, nil)
	g.Connect(xm, sp, nil)
	g.Connect(is, inner, nil)
	g.Connect(inner, ie, nil)
	g.Connect(sp, after, nil)
	g.Connect(after, e, nil)
	defs, _, err := step.Parse(g)
	if err != nil {
		v.Inconclusive("parse", "%v", err)
		return
	}
	perturb.Off()
	in, err := drive.New(env.Label, defs, drive.Opts{ExtraSubs: 1})
	if err != nil {
		v.Violate("new-process-error", "error", "%v", err)
		return
	}
	defer in.Cancel()
	if err := in.Start(); err != nil {
		v.Violate("start-error", "error", "%v", err)
		return
	}
	entered, answered := 0, 0
	lagged := false
	check := func(what string) bool {
		q := in.Quiesce(step.Watchdog)
		v.Add("qpoints", 1)
		if !q.Quiescent {
			v.Inconclusive("watchdog", "no quiescent point %s: %v", what, quiesce.Summary(q.Gs))
			return false
		}
		if got := in.Count("Task", "inner"); got != entered && !lagged {
			// recorded once; the run goes on so that the parent's continuations, the totals and completion are
			// still decided for this history
			lagged = true
			rule := "overlap-inner-requests"
			if got > entered {
				rule = "overlap-inner-requests-extra"
			}
			v.Violate(rule, "two-tokens", "%s: %d token(s) have entered the sub-process but its inner task was requested %d times; history %v", what, entered, got, c.Hist)
			v.Log = in.Tail(40)
		}
		if got := in.Count("Task", "after"); got != answered {
			v.Violate("overlap-parent-continuations", "two-tokens", "%s: %d inner token(s) have been consumed but the task behind the sub-process was requested %d times; history %v", what, answered, got, c.Hist)
			v.Log = in.Tail(40)
			return false
		}
		return true
	}
	if !check("after start") {
		return
	}
	for i, a := range c.Hist {
		var want string
		switch a {
		case "a":
			want = "ta"
		case "b":
			want = "tb"
		default:
			want = "inner"
		}
		var req *drive.Req
		for _, r := range in.Pending() {
			if r.Act == want && req == nil {
				req = r
			}
		}
		if req == nil {
			break // history not applicable any further
		}
		in.Answer(req, bpmn.DoWithResults(nil))
		if want == "inner" {
			answered++
		} else {
			entered++
		}
		if !check(fmt.Sprintf("after step %d (%s)", i, a)) {
			return
		}
	}
	// drain
	for guard := 0; guard < 6; guard++ {
		p := in.Pending()
		if len(p) == 0 {
			break
		}
		for _, r := range p {
			if r.Act == "inner" {
				answered++
			} else if r.Act == "ta" || r.Act == "tb" {
				entered++
			}
			in.Answer(r, bpmn.DoWithResults(nil))
		}
		if !check("while draining") {
			return
		}
	}
	if got := in.Count("Task", "inner"); got != 2 {
		v.Violate("overlap-inner-total", "two-tokens", "two tokens entered the sub-process, its inner task was requested %d times in total; history %v", got, c.Hist)
	}
	if n := in.Count("CeaseFlow", ""); n != 1 {
		v.Violate("overlap-not-complete", "two-tokens", "every task answered but %d cease-flow traces; history %v", n, c.Hist)
		v.Log = in.Tail(40)
	}
}

func init() {
	fw.Register(&fw.Prop{
		ID:    "C12",
		Cases: c12Cases,
		Run: func(c fw.Case, env *fw.Env) *fw.V {
			v := fw.NewV(c)
			var cc c12Case
			if err := json.Unmarshal(c.Desc, &cc); err != nil {
				v.Inconclusive("descriptor", "%v", err)
				return v
			}
			if cc.Events != "" {
				// the C11 runner and reference: the inner listener continues once per matching event, the
				// parent's token continues exactly once after the inner token is consumed, the instance completes
				c11Run(&c11Case{Shape: cc.Events, Kind: cc.Kind, Hist: cc.Hist}, env, v)
				reclass(v, "inner-events/"+cc.Events)
			} else if cc.Overlap {
				c12Overlap(&cc, env, v)
			} else {
				c12Run(&cc, env, v)
			}
			v.Nontrivial = true
			return v
		},
		Rule:        "every C01 nesting-pair program and PRNG programs (without inclusive gateways) with a PRNG-chosen block wrapped in 1..3 nested sub-processes (covers sub-process in parallel branches and in loops) x data assignments x answer orders: the wrapped program is run stepwise against the reference token game (sub-process transparent) and differentially against the unwrapped program with the same answer order (pending requests after every step must be identical); storm runs of the wrapped program; a catch event inside a sub-process one, two and three levels deep under every history up to length 3 / 4 of matching events, other events and answers (reference: the listener continues once per matching event delivered while it listens, the parent continues once, the instance completes); every case non-trivial (contains a sub-process whose exit the parent token needs); distinct = descriptor hash",
		Assumptions: []string{"a sub-process node has one activation at a time (entered again only after the previous activation completed)"},
	})
}
