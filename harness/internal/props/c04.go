package props

import (
	"context"
	"encoding/json"
	"fmt"
	"sort"
	"sync/atomic"
	"time"

	bpmn "github.com/olive-io/bpmn/v2"

	"verif/internal/drive"
	"verif/internal/fw"
	"verif/internal/gen"
	"verif/internal/perturb"
	"verif/internal/quiesce"
	"verif/internal/step"
)

type c04Case struct {
	Name   string `json:"name"`
	K      int    `json:"k"`      // conditional flows
	DefPos int    `json:"defpos"` // position of the default flow in the outgoing list, -1 = none
	Truth  int    `json:"truth"`  // bit i = condition i true
	Tokens int    `json:"tokens"`
	Flip   bool   `json:"flip,omitempty"` // the variables are inverted while the token reports its probe
	Lang   string `json:"lang"`   // expr | xpath
	Source string `json:"source"` // var | obj
	Storm  bool   `json:"storm"`
	Reps   int    `json:"reps"`
	DocRev bool   `json:"docrev,omitempty"` // the sequenceFlow elements appear in the document in the reverse of the gateway's list order
	Errs   int    `json:"errs,omitempty"`   // bit i: condition i cannot be evaluated (reads a variable that does not exist): error trace, counts as not true
	Retype int    `json:"retype,omitempty"` // index+1 into c04Retypes: the variable changes its kind between two gateways
	Funnel bool   `json:"funnel,omitempty"` // the tokens are merged into ONE incoming flow of the gateway (fork -> merging exclusive gateway -> X)
}

// expected branch: index into the outgoing list, -1 = none (error)
func (c *c04Case) expected() int {
	ci := 0
	for pos := 0; pos < c.K+btoi(c.DefPos >= 0); pos++ {
		if pos == c.DefPos {
			continue
		}
		if c.Truth>>ci&1 == 1 && c.Errs>>ci&1 == 0 {
			return pos
		}
		ci++
	}
	return c.DefPos
}

func btoi(b bool) int {
	if b {
		return 1
	}
	return 0
}

func c04Graph(c *c04Case) (*gen.Graph, []string) {
	g := gen.NewGraph("c04")
	g.FlowsReversed = c.DocRev
	if c.Lang == "xpath" || c.Lang == "mixedx" {
		g.Lang = "xpath"
	}
	// mixed: every second condition names its own language (the other one than the definitions' default)
	own := func(ci int) string {
		if ci%2 == 1 {
			switch c.Lang {
			case "mixed":
				return "xpath"
			case "mixedx":
				return "expr"
			}
		}
		return ""
	}
	s := g.Add(gen.Start, "start", "")
	if c.Source == "objtask" {
		// the data objects the conditions read are written by a task in front of the gateway (DoWithObjects)
		t0 := g.Add(gen.Task, "T0", "")
		for i := 0; i < c.K; i++ {
			if c.decoys() {
				t0.Outputs = append(t0.Outputs, fmt.Sprintf("c%d=DataObject_c%d", i, i))
			} else {
				t0.Outputs = append(t0.Outputs, fmt.Sprintf("c%d", i))
			}
		}
		g.Connect(s, t0, nil)
		// an embedded sub-process somewhere in the process (its scope gets a data locator of its own), passed by
		// the one token before it forks
		sp := g.Add(gen.Sub, "S", "")
		is := g.Add(gen.Start, "is", "S")
		it := g.Add(gen.Task, "it", "S")
		ie := g.Add(gen.End, "ie", "S")
		g.Connect(is, it, nil)
		g.Connect(it, ie, nil)
		g.Connect(t0, sp, nil)
		s = sp
	}
	x := g.Add(gen.Xor, "X", "")
	if c.Tokens == 1 {
		g.Connect(s, x, nil)
	} else if c.Funnel {
		f := g.Add(gen.And, "fork", "")
		m := g.Add(gen.Xor, "M", "")
		g.Connect(s, f, nil)
		for i := 0; i < c.Tokens; i++ {
			g.Connect(f, m, nil)
		}
		g.Connect(m, x, nil)
	} else {
		f := g.Add(gen.And, "fork", "")
		g.Connect(s, f, nil)
		for i := 0; i < c.Tokens; i++ {
			g.Connect(f, x, nil)
		}
	}
	var branches []string
	ci := 0
	n := c.K + btoi(c.DefPos >= 0)
	for pos := 0; pos < n; pos++ {
		b := g.Add(gen.Task, fmt.Sprintf("b%d", pos), "")
		e := g.Add(gen.End, fmt.Sprintf("e%d", pos), "")
		branches = append(branches, b.ID)
		if pos == c.DefPos {
			f := g.Connect(x, b, nil)
			x.Default = f.ID
		} else {
			kind := "var"
			if c.Source == "obj" || c.Source == "objtask" {
				kind = "obj"
			}
			if c.Errs>>ci&1 == 1 {
				g.Connect(x, b, &gen.Cond{Kind: "fail"})
			} else {
				g.Connect(x, b, &gen.Cond{Kind: kind, Var: fmt.Sprintf("c%d", ci), Op: ">", Val: 0, Lang: own(ci)})
			}
			if c.decoys() {
				// the data object's id differs from its name, and ANOTHER data object has that name as its id
				// (ids are unique, names are what conditions and data outputs go by)
				g.Objects = append(g.Objects, gen.DataObject{ID: fmt.Sprintf("DataObject_c%d", ci), Name: fmt.Sprintf("c%d", ci)},
					gen.DataObject{ID: fmt.Sprintf("c%d", ci), Name: fmt.Sprintf("decoy_c%d", ci), Body: `{"w": 0}`})
			} else if c.Source == "obj" || c.Source == "objtask" {
				g.Objects = append(g.Objects, gen.DataObject{ID: fmt.Sprintf("c%d", ci), Name: fmt.Sprintf("c%d", ci)})
			}
			ci++
		}
		g.Connect(b, e, nil)
	}
	return g, branches
}

// decoys: every other objtask case declares its data objects with an id of their own and adds, for each, a second
// data object whose ID is the first one's NAME
func (c *c04Case) decoys() bool { return c.Source == "objtask" && (c.Truth+c.K)%2 == 0 }

func c04Cases(tier string, seed uint64) []fw.Case {
	var cs []fw.Case
	for k := 1; k <= 4; k++ {
		for def := -1; def <= k; def++ {
			for truth := 0; truth < 1<<k; truth++ {
				for tokens := 1; tokens <= 3; tokens++ {
					for _, v := range [][2]string{{"expr", "var"}, {"expr", "obj"}, {"expr", "objtask"}, {"xpath", "var"}, {"mixed", "var"}, {"mixedx", "var"}} {
						if k < 2 && (v[0] == "mixed" || v[0] == "mixedx") {
							continue
						}
						c := c04Case{K: k, DefPos: def, Truth: truth, Tokens: tokens, Lang: v[0], Source: v[1]}
						c.Name = fmt.Sprintf("k%d-def%d-t%d-tok%d-%s-%s", k, def, truth, tokens, v[0], v[1])
						cs = append(cs, fw.MkCase("stepwise", &c))
						if tokens > 1 && (tier == "thorough" || (truth%3 == 0 && v[1] == "var")) {
							cc := c
							cc.Storm = true
							cc.Reps = 3
							if tier == "thorough" {
								cc.Reps = 20
							}
							cs = append(cs, fw.MkCase("storm", &cc))
						}
					}
				}
			}
		}
	}
	// the values change between the token's evaluation of the conditions and the gateway's answer
	for k := 1; k <= 3; k++ {
		for def := 0; def <= k; def++ {
			for truth := 0; truth < 1<<k; truth++ {
				c := c04Case{K: k, DefPos: def, Truth: truth, Tokens: 1, Lang: "expr", Source: "var", Flip: true}
				c.Name = fmt.Sprintf("flip-k%d-def%d-t%d", k, def, truth)
				cs = append(cs, fw.MkCase("flip", &c))
			}
		}
	}
	// the document lists the sequence flows in another order than the gateway does (list order decides)
	for k := 2; k <= 3; k++ {
		for def := -1; def <= k; def++ {
			for truth := 0; truth < 1<<k; truth++ {
				for _, v := range [][2]string{{"expr", "var"}, {"xpath", "var"}} {
					c := c04Case{K: k, DefPos: def, Truth: truth, Tokens: 1, Lang: v[0], Source: v[1], DocRev: true}
					c.Name = fmt.Sprintf("docrev-k%d-def%d-t%d-%s", k, def, truth, v[0])
					cs = append(cs, fw.MkCase("stepwise", &c))
				}
			}
		}
	}
	// conditions that cannot be evaluated: an error trace each, the alternative counts as not true
	for k := 2; k <= 3; k++ {
		for _, def := range []int{-1, k} {
			for truth := 0; truth < 1<<k; truth++ {
				for errs := 1; errs < 1<<k; errs++ {
					for tokens := 1; tokens <= 2; tokens++ {
						c := c04Case{K: k, DefPos: def, Truth: truth, Errs: errs, Tokens: tokens, Lang: "expr", Source: "var"}
						c.Name = fmt.Sprintf("errs-k%d-def%d-t%d-e%d-tok%d", k, def, truth, errs, tokens)
						cs = append(cs, fw.MkCase("stepwise", &c))
					}
				}
			}
		}
	}
	// a variable that changes its kind between two gateways evaluated by the same token
	for ri := range c04Retypes() {
		for _, truth := range []int{0, 1} {
			c := c04Case{K: 1, DefPos: 1, Truth: truth, Tokens: 1, Lang: "expr", Source: "var", Retype: ri + 1}
			c.Name = fmt.Sprintf("retyped-%d-t%d", ri, truth)
			cs = append(cs, fw.MkCase("retyped", &c))
		}
	}
	// many tokens over ONE incoming flow (more than the gateway's mailbox holds)
	for k := 1; k <= 2; k++ {
		for def := -1; def <= k; def++ {
			for truth := 0; truth < 1<<k; truth++ {
				for _, tokens := range []int{4, 8} {
					c := c04Case{K: k, DefPos: def, Truth: truth, Tokens: tokens, Lang: "expr", Source: "var", Funnel: true}
					c.Name = fmt.Sprintf("funnel-k%d-def%d-t%d-tok%d", k, def, truth, tokens)
					cs = append(cs, fw.MkCase("stepwise", &c))
					cc := c
					cc.Storm = true
					cc.Reps = 5
					if tier == "thorough" {
						cc.Reps = 40
					}
					cs = append(cs, fw.MkCase("storm", &cc))
				}
			}
		}
	}
	return fw.Number(cs)
}

// c04Retype: the second gateway's condition text and the value (true / false case) the task in between stores
type c04Retype struct {
	Name, Cond string
	True, False any
}

func c04Retypes() []c04Retype {
	return []c04Retype{
		{"int-to-string", `r == "go"`, "go", "stop"},
		{"int-to-bool", `r == true`, true, false},
		{"int-to-float", `r > 1.5`, 2.5, 0.5},
		{"int-to-object", `r.a == 1`, map[string]any{"a": 1}, map[string]any{"a": 2}},
		{"int-to-array", `len(r) == 2`, []int{1, 2}, []int{1}},
		{"int-to-int", `r > 3`, 9, 1},
		{"int-to-string-same-text", `r != 5`, "five", 5},
	}
}

// c04RunRetyped: start -> T0 (stores r = 5) -> X1 [r > 3 -> T1 | default -> Tz]; T1 (stores r again, as another
// kind) -> X2 [condition on the new kind -> TA | default -> TB]. The same token evaluates both gateways.
func c04RunRetyped(c *c04Case, env *fw.Env, v *fw.V) {
	rt := c04Retypes()[c.Retype-1]
	g := gen.NewGraph("c04r")
	s := g.Add(gen.Start, "start", "")
	t0 := g.Add(gen.Task, "T0", "")
	t0.Writes = []string{"r"}
	x1 := g.Add(gen.Xor, "X1", "")
	t1 := g.Add(gen.Task, "T1", "")
	t1.Writes = []string{"r"}
	tz := g.Add(gen.Task, "Tz", "")
	x2 := g.Add(gen.Xor, "X2", "")
	ta := g.Add(gen.Task, "TA", "")
	tb := g.Add(gen.Task, "TB", "")
	e := g.Add(gen.End, "end", "")
	g.Connect(s, t0, nil)
	g.Connect(t0, x1, nil)
	first := `r > 3`
	if rt.Name == "int-to-string-same-text" {
		first = rt.Cond
	}
	g.Connect(x1, t1, &gen.Cond{Kind: "text", Text: first})
	d := g.Connect(x1, tz, nil)
	x1.Default = d.ID
	g.Connect(t1, x2, nil)
	g.Connect(x2, ta, &gen.Cond{Kind: "text", Text: rt.Cond})
	d2 := g.Connect(x2, tb, nil)
	x2.Default = d2.ID
	for _, n := range []*gen.Node{tz, ta, tb} {
		g.Connect(n, e, nil)
	}
	defs, _, err := step.Parse(g)
	if err != nil {
		v.Inconclusive("parse", "%v", err)
		return
	}
	perturb.Off()
	in, err := drive.New(env.Label, defs, drive.Opts{ExtraSubs: 1, Vars: map[string]any{"r": 0}})
	if err != nil {
		v.Violate("new-process-error", "error", "%v", err)
		return
	}
	defer in.Cancel()
	cls := "retyped-" + rt.Name
	stepTo := func(what string, want string) bool {
		q := in.Quiesce(step.Watchdog)
		v.Add("qpoints", 1)
		if !q.Quiescent {
			v.Inconclusive("watchdog", "no quiescent point %s: %v", what, quiesce.Summary(q.Gs))
			return false
		}
		got := in.PendingActs()
		if len(got) != 1 || got[0] != want {
			v.Violate("wrong-branch", cls, "%s: pending requests %v, expected [%s] (second condition %q); error traces: %d", what, got, want, rt.Cond, in.Count("Error", ""))
			v.Log = in.Tail(30)
			return false
		}
		return true
	}
	if err := in.Start(); err != nil {
		v.Violate("start-error", "error", "%v", err)
		return
	}
	if !stepTo("after start", "T0") {
		return
	}
	init := any(7)
	if rt.Name == "int-to-string-same-text" {
		init = 7 // 7 != 5
	}
	in.Answer(in.Pending()[0], bpmn.DoWithResults(map[string]any{"r": init}))
	if !stepTo("after T0 stored an integer", "T1") {
		return
	}
	val, want := rt.False, "TB"
	if c.Truth == 1 {
		val, want = rt.True, "TA"
	}
	in.Answer(in.Pending()[0], bpmn.DoWithResults(map[string]any{"r": val}))
	if !stepTo(fmt.Sprintf("after T1 stored %v (%T)", val, val), want) {
		return
	}
	if n := in.Count("Error", "") + in.Count("ErrorNoFlow", ""); n != 0 {
		v.Violate("spurious-error-trace", cls, "%d error traces although every condition can be evaluated", n)
		v.Log = in.Tail(30)
	}
}

// c04RunFlip: the variables the conditions read change (every truth value is inverted) at the moment the token
// has evaluated the conditions and is about to report to the gateway - as a task answered on another token
// would do. Whatever the engine makes of that, the token takes exactly one flow: the one for the old values or
// the one for the new ones (there is a default flow, so both exist); it is neither lost nor duplicated and no
// error is traced.
func c04RunFlip(c *c04Case, env *fw.Env, v *fw.V) {
	g, branches := c04Graph(c)
	defs, _, err := step.Parse(g)
	if err != nil {
		v.Inconclusive("parse", "%v", err)
		return
	}
	cls := "flip-while-probing"
	vals, flipped := map[string]any{}, map[string]any{}
	for i := 0; i < c.K; i++ {
		bit := c.Truth >> i & 1
		vals[fmt.Sprintf("c%d", i)] = bit
		flipped[fmt.Sprintf("c%d", i)] = 1 - bit
	}
	old := branches[c.expected()]
	inv := *c
	inv.Truth = ^c.Truth & (1<<c.K - 1)
	neu := branches[inv.expected()]
	perturb.Off()
	pctx, pcancel := context.WithCancel(context.Background())
	defer pcancel()
	var inp atomic.Pointer[drive.Inst]
	fired := perturb.Trigger("gw.exclusive.report", 1, 200*time.Microsecond, func() {
		if in := inp.Load(); in != nil {
			for k, x := range flipped {
				in.Proc.Locator().SetVariable(k, x)
			}
		}
	})
	defer perturb.Trigger("", 0, 0, nil)
	in, err := drive.New(env.Label, defs, drive.Opts{ExtraSubs: 1, Vars: vals, Ctx: pctx})
	if err != nil {
		v.Violate("new-process-error", "error", "%v", err)
		return
	}
	defer in.Cancel()
	inp.Store(in)
	if err := in.Start(); err != nil {
		v.Violate("start-error", "error", "%v", err)
		return
	}
	q := in.Quiesce(step.Watchdog)
	v.Add("qpoints", 1)
	if !q.Quiescent {
		v.Inconclusive("watchdog", "no quiescent point: %v", quiesce.Summary(q.Gs))
		return
	}
	if !fired() {
		v.Inconclusive("trigger", "the probing report was never reached")
		return
	}
	v.Add("flips", 1)
	got := in.PendingActs()
	if len(got) != 1 || (got[0] != old && got[0] != neu) {
		v.Violate("wrong-branch", cls, "k=%d default@%d truth=%b inverted while the token was reporting its probe: pending requests %v, expected [%s] (values at the probe) or [%s] (values afterwards); error traces %d", c.K, c.DefPos, c.Truth, got, old, neu, in.Count("Error", "")+in.Count("ErrorNoFlow", ""))
		v.Log = in.Tail(30)
		return
	}
	if n := in.Count("Error", "") + in.Count("ErrorNoFlow", ""); n != 0 {
		v.Violate("spurious-error-trace", cls, "%d error traces although a flow can be taken under the old and under the new values", n)
		v.Log = in.Tail(30)
	}
}

func c04Run(c *c04Case, env *fw.Env, v *fw.V) {
	if c.Retype > 0 {
		c04RunRetyped(c, env, v)
		return
	}
	if c.Flip {
		c04RunFlip(c, env, v)
		return
	}
	g, branches := c04Graph(c)
	defs, _, err := step.Parse(g)
	if err != nil {
		v.Inconclusive("parse", "%v", err)
		return
	}
	cls := fmt.Sprintf("%s-%s", c.Lang, c.Source)
	if c.Funnel {
		cls += "-funnel"
	}
	if c.DocRev {
		cls += "-docrev"
	}
	if c.Errs != 0 {
		cls += "-errs"
	}
	o := drive.Opts{ExtraSubs: 1}
	vals := map[string]any{}
	for i := 0; i < c.K; i++ {
		name := fmt.Sprintf("c%d", i)
		bit := c.Truth >> i & 1
		if c.Source == "obj" || c.Source == "objtask" {
			vals[name] = map[string]any{"v": bit}
		} else {
			vals[name] = bit
		}
	}
	switch c.Source {
	case "obj":
		o.DataObjects = vals
	case "objtask":
		// written by the task in front of the gateway
	default:
		o.Vars = vals
	}
	if c.Storm {
		perturb.ConfigureSites(map[string]float64{"gw.exclusive.next": 0.5, "gw.exclusive.report": 0.5, "flow.action": 0.3, "tracer.send": 0.1}, 300)
	} else {
		perturb.Off()
	}
	in, err := drive.New(env.Label, defs, o)
	if err != nil {
		v.Violate("new-process-error", cls, "%v", err)
		return
	}
	defer in.Cancel()
	if err := in.Start(); err != nil {
		v.Violate("start-error", cls, "%v", err)
		return
	}
	q := in.Quiesce(step.Watchdog)
	v.Add("qpoints", 1)
	if !q.Quiescent {
		v.Inconclusive("watchdog", "no quiescent point after start: %v", quiesce.Summary(q.Gs))
		return
	}
	if c.Source == "objtask" {
		p := in.Pending()
		if len(p) != 1 || p[0].Act != "T0" {
			v.Inconclusive("setup", "pending %v, expected [T0]", in.PendingActs())
			return
		}
		in.Answer(p[0], bpmn.DoWithObjects(vals))
		q = in.Quiesce(step.Watchdog)
		if p = in.Pending(); len(p) != 1 || p[0].Act != "it" {
			v.Inconclusive("setup", "pending %v, expected [it]", in.PendingActs())
			return
		}
		in.Answer(p[0], bpmn.DoWithResults(nil))
		q = in.Quiesce(step.Watchdog)
		v.Add("qpoints", 1)
		if !q.Quiescent {
			v.Inconclusive("watchdog", "no quiescent point after T0: %v", quiesce.Summary(q.Gs))
			return
		}
	}
	exp := c.expected()
	var want []string
	if exp >= 0 {
		for i := 0; i < c.Tokens; i++ {
			want = append(want, branches[exp])
		}
	}
	got := in.PendingActs()
	sort.Strings(want)
	dcls := fmt.Sprintf("%s-def%v", cls, c.DefPos >= 0)
	if fmt.Sprint(got) != fmt.Sprint(want) {
		v.Violate("wrong-branch", dcls, "k=%d default@%d truth=%b tokens=%d: requests %v, expected %v (first true condition in list order, else default, else none)", c.K, c.DefPos, c.Truth, c.Tokens, got, want)
	}
	// exactly one FlowTrace from the gateway per token (none when no flow may be taken)
	nflow := in.Count("Flow", "X")
	wantFlows := 0
	if exp >= 0 {
		wantFlows = c.Tokens
	}
	if nflow != wantFlows {
		v.Violate("flowtrace-count", dcls, "%d flow traces from the gateway for %d tokens (expected %d)", nflow, c.Tokens, wantFlows)
	}
	// error trace iff no effective flow, identifying the gateway, once per token
	nerr := in.Count("ErrorNoFlow", "X")
	wantErr := 0
	if exp < 0 {
		wantErr = c.Tokens
	}
	if nerr != wantErr {
		v.Violate("error-trace-count", dcls, "%d no-effective-flow error traces identifying the gateway (expected %d)", nerr, wantErr)
	}
	wantCondErr := 0
	for i := 0; i < c.K; i++ {
		if c.Errs>>i&1 == 1 {
			wantCondErr += c.Tokens
		}
	}
	if n := in.Count("Error", ""); n > wantCondErr {
		l := in.Log(0)
		for _, e := range l {
			if e.Kind == "Error" {
				v.Violate("unexpected-error-trace", cls, "%d error traces (expected %d for the conditions that cannot be evaluated): %s", n, wantCondErr, e.Err)
				break
			}
		}
	} else if n < wantCondErr {
		v.Violate("condition-error-trace-missing", cls, "%d error traces, %d condition(s) that cannot be evaluated were evaluated by %d token(s)", n, wantCondErr/c.Tokens, c.Tokens)
	}
	// finish the instance
	for guard := 0; guard < 4; guard++ {
		for _, r := range in.Pending() {
			in.Answer(r, bpmn.DoWithResults(nil))
		}
		q = in.Quiesce(step.Watchdog)
		if len(in.Pending()) == 0 {
			break
		}
	}
	v.Add("qpoints", 1)
	if q.Quiescent && exp >= 0 && !v.Violated() {
		if n := in.Count("CeaseFlow", ""); n != 1 {
			v.Violate("not-complete", dcls, "%d cease-flow traces after all branch tasks were answered", n)
		}
		if n := in.Count("CompletionEnd", fmt.Sprintf("e%d", exp)); n != c.Tokens {
			v.Violate("wrong-end", dcls, "end event of the chosen branch reached %d times for %d tokens", n, c.Tokens)
		}
	}
	v.Add("traces", len(in.Log(0)))
	if v.Violated() {
		v.Log = in.Tail(40)
	}
}

func init() {
	fw.Register(&fw.Prop{
		ID:    "C04",
		Cases: c04Cases,
		Run: func(c fw.Case, env *fw.Env) *fw.V {
			v := fw.NewV(c)
			var cc c04Case
			if err := json.Unmarshal(c.Desc, &cc); err != nil {
				v.Inconclusive("descriptor", "%v", err)
				return v
			}
			reps := 1
			if cc.Storm {
				reps = cc.Reps
			}
			for i := 0; i < reps && !v.Violated(); i++ {
				fw.Rep(env, i, func(env *fw.Env) { c04Run(&cc, env, v) })
				v.Add("runs", 1)
			}
			v.Nontrivial = true
			return v
		},
		Rule:       "exhaustive grid: k in 1..4 conditional flows x default absent / at each list position x all 2^k truth assignments x 1..3 tokens arriving together x {expr over variables, expr over data objects, XPath over variables} (1896 cells) with the closed-form oracle 'first true in list order, else default, else error trace + no flow', one flow trace per token; storm variants perturb the probe/report hand-shake of concurrent tokens; funnel shapes (4 / 8 tokens merged into one incoming flow); definitions with the sequence flows in reverse document order; conditions that cannot be evaluated (every non-empty subset of k = 2..3 conditions: an error trace each per token, the alternative counts as not true); two gateways in a row evaluated by one token with a variable that changes its kind in between (integer to string / boolean / float / object / array); every cell is non-trivial (a condition or the default decides); distinct = descriptor hash; every other objtask case declares its data objects with ids of their own plus decoy objects whose ids are the names the conditions use",
		Exhaustive: func(string) bool { return true },
		Assumptions: []string{"XPath conditions address variables as //<name> (the engine serialises the variable map with anyxml, whose root element depends on the number of variables)", "data-object conditions are exercised in expr only (the XPath engine exposes no usable data-object function name)"},
	})
}
