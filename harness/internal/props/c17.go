package props

import (
	"context"
	"encoding/json"
	"fmt"
	"runtime"
	"sync"
	"time"

	"github.com/anishathalye/porcupine"
	"github.com/olive-io/bpmn/v2/pkg/data"
	"github.com/olive-io/bpmn/v2/pkg/event"

	"verif/internal/drive"
	"verif/internal/fw"
	"verif/internal/gen"
	"verif/internal/perturb"
	"verif/internal/step"

	bpmn "github.com/olive-io/bpmn/v2"
)

type c17Case struct {
	Name  string           `json:"name"`
	Kind  string           `json:"kind"` // storm | c06 | c10 | c11 | locator
	AST   *gen.Block       `json:"ast,omitempty"`
	Width int              `json:"width,omitempty"` // conditions: number of parallel branches (0 = 8)
	Vars  map[string]int64 `json:"vars,omitempty"`
	Fam   string           `json:"fam,omitempty"`
	Sub   json.RawMessage  `json:"sub,omitempty"` // descriptor of the borrowed workload
	Procs int              `json:"procs"`
	Reps  int              `json:"reps"`
}

func c17Cases(tier string, seed uint64) []fw.Case {
	rng := fw.NewRng(seed, "C17")
	reps := 3
	nrand := 12
	if tier == "thorough" {
		reps = 25
		nrand = 60
	}
	var cs []fw.Case
	progs := forcedPairs(rng)
	k := 0
	for _, p := range randomProgs(rng, nrand*3, 3, 12) {
		if p.Family == "core" && k < nrand {
			progs = append(progs, p)
			k++
		}
	}
	for i, p := range progs {
		c := c17Case{Kind: "storm", AST: p.AST, Vars: zeroData(assignments(p.NV, 1, rng)[0], p.AST), Fam: p.Family, Procs: []int{4, 16}[i%2], Reps: reps}
		c.Name = "storm/" + p.Name
		cs = append(cs, fw.MkCase("storm", &c))
	}
	// borrowed concurrent workloads
	pick := func(all []fw.Case, kind string, n int) []fw.Case {
		var out []fw.Case
		for _, c := range all {
			if c.Kind == kind {
				out = append(out, c)
			}
		}
		var sel []fw.Case
		for i := 0; i < n && len(out) > 0; i++ {
			sel = append(sel, out[rng.Intn(len(out))])
		}
		return sel
	}
	n := 10
	if tier == "thorough" {
		n = 60
	}
	for _, c := range pick(c06Cases("quick", seed), "concurrent", n) {
		cc := c17Case{Kind: "c06", Sub: c.Desc, Procs: 16, Reps: reps, Name: "c06/" + fw.HashBytes(c.Desc)}
		cs = append(cs, fw.MkCase("c06", &cc))
	}
	for _, c := range pick(c10Cases("quick", seed), "race", n) {
		cc := c17Case{Kind: "c10", Sub: c.Desc, Procs: 16, Reps: reps, Name: "c10/" + fw.HashBytes(c.Desc)}
		cs = append(cs, fw.MkCase("c10", &cc))
	}
	for _, c := range pick(c11Cases("quick", seed), "prng", n) {
		cc := c17Case{Kind: "c11", Sub: c.Desc, Procs: 4, Reps: reps, Name: "c11/" + fw.HashBytes(c.Desc)}
		cs = append(cs, fw.MkCase("c11", &cc))
	}
	// process sets with message flows (throw -> start event of a waiting process, throw -> catch events that
	// register with the set one after the other), three concurrent set waiters
	var psets []fw.Case
	for _, c := range c18Cases("thorough", seed) {
		var cc c18Case
		json.Unmarshal(c.Desc, &cc)
		if cc.Link != "none" && cc.Link != "waitcatch" && cc.Hook == 0.5 && (cc.Waits == "three" || cc.Waits == "twice") {
			if cc.Link == "fanin" || cc.Link == "fanstart" {
				psets = append(psets, c, c) // several throws racing for one catch registration: weight it
			}
			psets = append(psets, c)
		}
	}
	for i := 0; i < n && len(psets) > 0; i++ {
		c := psets[(i*7+rng.Intn(3))%len(psets)]
		cc := c17Case{Kind: "pset", Sub: c.Desc, Procs: []int{4, 16}[i%2], Reps: reps, Name: "pset/" + fw.HashBytes(c.Desc)}
		cs = append(cs, fw.MkCase("pset", &cc))
	}
	for i := 0; i < 4; i++ {
		cc := c17Case{Kind: "locator", Procs: 16, Reps: reps, Name: fmt.Sprintf("locator/%d", i)}
		cs = append(cs, fw.MkCase("locator", &cc))
	}
	for i := 0; i < 6; i++ {
		cc := c17Case{Kind: "objects", Procs: []int{4, 16}[i%2], Reps: reps * 2, Name: fmt.Sprintf("objects/%d", i)}
		cs = append(cs, fw.MkCase("objects", &cc))
	}
	for i := 0; i < 8; i++ {
		cc := c17Case{Kind: "conditions", Procs: []int{4, 16}[i%2], Reps: reps * 2, Name: fmt.Sprintf("conditions/%d", i)}
		cs = append(cs, fw.MkCase("conditions", &cc))
	}
	// an event bus shared by instances that come and go: events are handed to the bus (and by it to every
	// registered instance) while further instances are being constructed on it
	for i := 0; i < 3; i++ {
		cc := c17Case{Kind: "bus", Procs: []int{4, 16, 2}[i], Reps: reps, Name: fmt.Sprintf("bus/%d", i)}
		cs = append(cs, fw.MkCase("bus", &cc))
	}
	// senders registering while a cancelled tracer is being released by its last sender (C09's drain rounds, here
	// under the race detector)
	for i := 0; i < 2; i++ {
		cc := c17Case{Kind: "drain", Procs: []int{2, 8}[i], Reps: 1, Name: fmt.Sprintf("drain/%d", i)}
		cs = append(cs, fw.MkCase("drain", &cc))
	}
	// the same with 96 branches: one process that has seen several hundred distinct condition texts (whatever the
	// expression engines keep per text has grown, been trimmed or been rebuilt) and goes on compiling concurrently
	for i := 0; i < 2; i++ {
		cc := c17Case{Kind: "conditions", Width: 96, Procs: []int{16, 4}[i%2], Reps: reps * 2, Name: fmt.Sprintf("conditions-many/%d", i)}
		cs = append(cs, fw.MkCase("conditions", &cc))
	}
	// and with 192 branches: several multiples of any plausible bound on what is kept per text are crossed in
	// one process, each crossing with other tokens compiling at that moment
	for i := 0; i < 2; i++ {
		cc := c17Case{Kind: "conditions", Width: 192, Procs: []int{16, 8}[i%2], Reps: reps * 2, Name: fmt.Sprintf("conditions-more/%d", i)}
		cs = append(cs, fw.MkCase("conditions", &cc))
	}
	return fw.Number(cs)
}

// noise: finite bursts of concurrent API use while a storm round runs
func c17Noise(in *drive.Inst, round int) {
	tr := in.Proc.Tracer()
	loc := in.Proc.Locator()
	for g := 0; g < 2; g++ {
		go func() {
			for i := 0; i < 6; i++ {
				ch := tr.Subscribe()
				runtime.Gosched()
				tr.Unsubscribe(ch)
			}
		}()
	}
	go func() {
		for i := 0; i < 40; i++ {
			for _, it := range loc.CloneVariables() {
				_ = it.Value()
			}
			loc.GetVariable("v0")
			loc.CloneItems(data.LocatorObject)
			loc.CloneItems(data.LocatorProperty)
			loc.CloneItems(data.LocatorHeader)
		}
	}()
	go func() {
		for i := 0; i < 5; i++ {
			ctx, cancel := context.WithTimeout(context.Background(), 200*time.Microsecond)
			in.Proc.WaitUntilComplete(ctx)
			cancel()
		}
	}()
	go func() {
		for i := 0; i < 6; i++ {
			in.Proc.ConsumeEvent(event.NewSignalEvent("c17-stranger"))
		}
	}()
}

type locOp struct {
	Key   string
	Write bool
	Val   int
}

var c17LocModel = porcupine.Model{
	Partition: func(h []porcupine.Operation) [][]porcupine.Operation {
		m := map[string][]porcupine.Operation{}
		for _, o := range h {
			k := o.Input.(locOp).Key
			m[k] = append(m[k], o)
		}
		var out [][]porcupine.Operation
		for _, v := range m {
			out = append(out, v)
		}
		return out
	},
	Init: func() any { return -1 },
	Step: func(st, in, out any) (bool, any) {
		op := in.(locOp)
		if op.Write {
			return true, op.Val
		}
		return out.(int) == st.(int), st
	},
}

func c17Locator(v *fw.V) {
	loc := data.NewFlowDataLocator()
	keys := []string{"a", "b", "c"}
	var mu sync.Mutex
	var ops []porcupine.Operation
	var wg sync.WaitGroup
	for g := 0; g < 6; g++ {
		wg.Add(1)
		go func(g int) {
			defer wg.Done()
			for i := 0; i < 40; i++ {
				k := keys[(g+i)%3]
				if (g+i)%2 == 0 {
					val := g*1000 + i
					t0 := drive.Seq.Add(1)
					loc.SetVariable(k, val)
					t1 := drive.Seq.Add(1)
					mu.Lock()
					ops = append(ops, porcupine.Operation{ClientId: g, Input: locOp{Key: k, Write: true, Val: val}, Call: t0, Output: 0, Return: t1})
					mu.Unlock()
				} else {
					t0 := drive.Seq.Add(1)
					got, found := loc.GetVariable(k)
					t1 := drive.Seq.Add(1)
					r := -1
					if found {
						if n, ok := got.(int64); ok {
							r = int(n)
						}
					}
					mu.Lock()
					ops = append(ops, porcupine.Operation{ClientId: g, Input: locOp{Key: k}, Call: t0, Output: r, Return: t1})
					mu.Unlock()
				}
				if i%7 == 0 {
					for _, it := range loc.CloneVariables() {
						_ = it.Value()
					}
				}
			}
		}(g)
	}
	wg.Wait()
	res, _ := porcupine.CheckOperationsVerbose(c17LocModel, ops, 30*time.Second)
	switch res {
	case porcupine.Illegal:
		v.Violate("locator-not-linearizable", "variables", "concurrent SetVariable/GetVariable history of %d operations is not linearizable per key", len(ops))
	case porcupine.Unknown:
		v.Inconclusive("porcupine-timeout", "checker timed out")
	}
	v.Add("locator-ops", len(ops))
}

// concurrent data-object answers while the data-object containers are read
func c17Objects(env *fw.Env, v *fw.V) {
	g := gen.NewGraph("c17o")
	s := g.Add(gen.Start, "start", "")
	f := g.Add(gen.And, "fork", "")
	j := g.Add(gen.And, "join", "")
	n := g.Add(gen.Task, "N", "")
	e := g.Add(gen.End, "end", "")
	g.Connect(s, f, nil)
	for i := 1; i <= 4; i++ {
		t := g.Add(gen.Task, fmt.Sprintf("w%d", i), "")
		t.Outputs = []string{fmt.Sprintf("o%d", i), "shared"}
		t.Writes = []string{fmt.Sprintf("r%d", i), "sharedvar"}
		t.Headers = []gen.PropItem{{Name: "h", Value: "v"}}
		t.Props = []gen.PropItem{{Name: "sharedvar", Type: "integer"}}
		g.Connect(f, t, nil)
		g.Connect(t, j, nil)
		n.Inputs = append(n.Inputs, fmt.Sprintf("o%d", i))
	}
	n.Inputs = append(n.Inputs, "shared")
	g.Connect(j, n, nil)
	g.Connect(n, e, nil)
	g.Objects = []gen.DataObject{{ID: "shared", Name: "shared", Body: `{"v":0}`}}
	defs, _, err := step.Parse(g)
	if err != nil {
		v.Inconclusive("parse", "%v", err)
		return
	}
	perturb.Configure(0.3, 200)
	defer perturb.Off()
	in, err := drive.New(env.Label, defs, drive.Opts{})
	if err != nil {
		v.Violate("new-process-error", "objects", "%v", err)
		return
	}
	defer in.Cancel()
	if err := in.Start(); err != nil {
		v.Violate("start-error", "objects", "%v", err)
		return
	}
	in.Quiesce(step.Watchdog)
	var wg sync.WaitGroup
	barrier := make(chan struct{})
	for i, r := range in.Pending() {
		wg.Add(1)
		go func(i int, r *drive.Req) {
			defer wg.Done()
			<-barrier
			id := r.Act[1:]
			in.Answer(r, bpmn.DoWithObjects(map[string]any{"o" + id: map[string]any{"i": i}, "shared": map[string]any{"by": r.Act}}),
				bpmn.DoWithResults(map[string]any{"r" + id: i, "sharedvar": i}))
		}(i, r)
	}
	loc := in.Proc.Locator()
	for k := 0; k < 3; k++ {
		wg.Add(1)
		go func() {
			defer wg.Done()
			<-barrier
			for i := 0; i < 60; i++ {
				for _, it := range loc.CloneItems(data.LocatorObject) {
					_ = it.Value()
				}
				loc.CloneItems(data.LocatorHeader)
				loc.CloneItems(data.LocatorProperty)
				if l, ok := loc.FindIItemAwareLocator(data.LocatorObject); ok {
					if aw, ok := l.FindItemAwareById("shared"); ok && aw.Get() != nil {
						_ = aw.Get().Value()
					}
					l.FindItemAwareByName("shared")
				}
				loc.CloneVariables()
			}
		}()
	}
	close(barrier)
	wg.Wait()
	q := in.Quiesce(step.Watchdog)
	if !q.Quiescent {
		v.Inconclusive("watchdog", "no quiescent point")
		return
	}
	if p := in.PendingActs(); len(p) != 1 || p[0] != "N" {
		v.Violate("outcome-continuation", "objects", "after four concurrent data-object answers pending requests are %v, expected [N]", p)
		return
	}
	v.Add("object-answers", 4)
}

// c17Bus: one event.FanOut is ingress and egress of several instances (start -> catch s1 -> task -> end). Two
// goroutines hand events to the bus while a third constructs and starts further instances on it; every instance
// that was listening before the deliveries began must have continued exactly once.
func c17Bus(env *fw.Env, v *fw.V) {
	g := gen.NewGraph("c17b")
	s := g.Add(gen.Start, "start", "")
	c := g.Add(gen.Catch, "c1", "")
	c.Events = []gen.EventDef{{Type: "signal", Ref: "s1"}}
	t := g.Add(gen.Task, "t1", "")
	e := g.Add(gen.End, "end", "")
	g.Connect(s, c, nil)
	g.Connect(c, t, nil)
	g.Connect(t, e, nil)
	defs, _, err := step.Parse(g)
	if err != nil {
		v.Inconclusive("parse", "%v", err)
		return
	}
	perturb.Off()
	bus := event.NewFanOut()
	opts := drive.Opts{RawOptions: []bpmn.Option{bpmn.WithEventEgress(bus), bpmn.WithEventIngress(bus)}}
	var first []*drive.Inst
	for i := 0; i < 3; i++ {
		in, err := drive.New(env.Label, defs, opts)
		if err != nil {
			v.Violate("new-process-error", "bus", "%v", err)
			return
		}
		defer in.Cancel()
		if err := in.Start(); err != nil {
			v.Violate("start-error", "bus", "%v", err)
			return
		}
		in.Quiesce(step.Watchdog)
		first = append(first, in)
	}
	var wg sync.WaitGroup
	var mu sync.Mutex
	var late []*drive.Inst
	barrier := make(chan struct{})
	wg.Add(3)
	for k := 0; k < 2; k++ {
		go func(k int) {
			defer wg.Done()
			<-barrier
			for i := 0; i < 40; i++ {
				ref := "zz"
				if k == 0 && i == 20 {
					ref = "s1"
				}
				bus.ConsumeEvent(event.NewSignalEvent(ref))
			}
		}(k)
	}
	go func() {
		defer wg.Done()
		<-barrier
		for i := 0; i < 12; i++ {
			in, err := drive.New(env.Label, defs, opts)
			if err != nil {
				return
			}
			in.Start()
			mu.Lock()
			late = append(late, in)
			mu.Unlock()
		}
	}()
	close(barrier)
	wg.Wait()
	for _, in := range late {
		defer in.Cancel()
	}
	for i, in := range first {
		q := in.Quiesce(step.Watchdog)
		if !q.Quiescent {
			v.Inconclusive("watchdog", "no quiescent point")
			return
		}
		if p := in.PendingActs(); len(p) != 1 || p[0] != "t1" {
			v.Violate("outcome-listener-missed", "bus", "instance %d listened on the shared bus before the events were handed over; after one matching event among 80 its pending requests are %v, expected [t1]", i, p)
			return
		}
	}
	v.Add("bus-events", 80)
	v.Add("bus-instances", len(first)+len(late))
}

// many tokens evaluating (distinct, never seen before) conditions at the same time
func c17Conditions(env *fw.Env, v *fw.V, rep int, name string, width int) {
	g := gen.NewGraph("c17c")
	s := g.Add(gen.Start, "start", "")
	f := g.Add(gen.And, "fork", "")
	g.Connect(s, f, nil)
	vars := map[string]any{}
	for i := 1; i <= width; i++ {
		t := g.Add(gen.Task, fmt.Sprintf("w%d", i), "")
		x := g.Add(gen.Xor, fmt.Sprintf("x%d", i), "")
		ea := g.Add(gen.End, fmt.Sprintf("ea%d", i), "")
		eb := g.Add(gen.End, fmt.Sprintf("eb%d", i), "")
		g.Connect(f, t, nil)
		g.Connect(t, x, nil)
		// a constant that differs per branch, repetition and case: every condition text is new
		k := int64(rep*100000 + i*100 + len(name))
		vn := fmt.Sprintf("q%d", i)
		vars[vn] = int(k) + 1
		lang := ""
		if i%4 == 0 {
			lang = "xpath"
		}
		g.Connect(x, ea, &gen.Cond{Kind: "var", Var: vn, Op: ">", Val: k, Lang: lang})
		d := g.Connect(x, eb, nil)
		x.Default = d.ID
	}
	defs, _, err := step.Parse(g)
	if err != nil {
		v.Inconclusive("parse", "%v", err)
		return
	}
	perturb.Configure(0.2, 100)
	defer perturb.Off()
	in, err := drive.New(env.Label, defs, drive.Opts{Vars: vars})
	if err != nil {
		v.Violate("new-process-error", "conditions", "%v", err)
		return
	}
	defer in.Cancel()
	if err := in.Start(); err != nil {
		v.Violate("start-error", "conditions", "%v", err)
		return
	}
	in.Quiesce(step.Watchdog)
	var wg sync.WaitGroup
	barrier := make(chan struct{})
	for _, r := range in.Pending() {
		wg.Add(1)
		go func(r *drive.Req) {
			defer wg.Done()
			<-barrier
			in.Answer(r, bpmn.DoWithResults(nil))
		}(r)
	}
	close(barrier)
	wg.Wait()
	q := in.Quiesce(step.Watchdog)
	if !q.Quiescent {
		v.Inconclusive("watchdog", "no quiescent point")
		return
	}
	for i := 1; i <= width; i++ {
		if n := in.Count("CompletionEnd", fmt.Sprintf("ea%d", i)); n != 1 {
			v.Violate("outcome-wrong-branch", "conditions", "branch %d: end event of the true condition reached %d times", i, n)
		}
	}
	if n := in.Count("CeaseFlow", ""); n != 1 {
		v.Violate("outcome-not-complete", "conditions", "%d cease-flow traces", n)
	}
	v.Add("condition-evaluations", width)
}

func c17Run(c *c17Case, env *fw.Env, v *fw.V) {
	if c.Procs > 0 {
		defer runtime.GOMAXPROCS(runtime.GOMAXPROCS(c.Procs))
	}
	for i := 0; i < c.Reps; i++ {
		switch c.Kind {
		case "storm":
			g := gen.Lower("p", c.AST)
			fw.Rep(env, i, func(env *fw.Env) {
				sc := step.Case{G: g, Vars: c.Vars, Storm: true, Hooks: 0.3, OnRound: c17Noise, Family: c.Fam}
				tmp := fw.NewV(fw.Case{})
				step.RunStorm("C17", &sc, env, tmp)
				v.Add("storm-runs", 1)
				// the outcome must still be one the token semantics allows (families without recorded defects)
				if c.Fam != "with-inclusive" {
					for _, f := range tmp.Findings {
						if f.Status == fw.Violation {
							v.Violate("outcome-"+f.Rule, "storm", "[%s] %s", c.Name, f.Msg)
							v.Log = tmp.Log
						}
					}
				}
			})
		case "c06":
			var cc c06Case
			json.Unmarshal(c.Sub, &cc)
			cc.Hook = 0.3
			fw.Rep(env, i, func(env *fw.Env) {
				tmp := fw.NewV(fw.Case{})
				c06Run(&cc, env, tmp)
				for _, f := range tmp.Findings {
					if f.Status == fw.Violation {
						v.Violate("outcome-"+f.Rule, "event-gateway", "%s", f.Msg)
					}
				}
			})
		case "c10":
			var cc c10Case
			json.Unmarshal(c.Sub, &cc)
			fw.Rep(env, i, func(env *fw.Env) {
				tmp := fw.NewV(fw.Case{})
				c10Run(&cc, env, tmp) // outcome is C10's business (recorded findings); here only races and panics count
			})
		case "c11":
			var cc c11Case
			json.Unmarshal(c.Sub, &cc)
			cc.Hooks = true
			fw.Rep(env, i, func(env *fw.Env) {
				tmp := fw.NewV(fw.Case{})
				c11Run(&cc, env, tmp)
				for _, f := range tmp.Findings {
					if f.Status == fw.Violation {
						v.Violate("outcome-"+f.Rule, "events", "%s", f.Msg)
					}
				}
			})
		case "pset":
			var cc c18Case
			json.Unmarshal(c.Sub, &cc)
			fw.Rep(env, i, func(env *fw.Env) {
				tmp := fw.NewV(fw.Case{})
				c18Run(&cc, env, tmp)
				for _, f := range tmp.Findings {
					if f.Status == fw.Violation {
						v.Violate("outcome-"+f.Rule, "process-set", "%s", f.Msg)
					}
				}
			})
		case "locator":
			c17Locator(v)
		case "objects":
			fw.Rep(env, i, func(env *fw.Env) { c17Objects(env, v) })
		case "bus":
			fw.Rep(env, i, func(env *fw.Env) { c17Bus(env, v) })
		case "drain":
			tmp := fw.NewV(fw.Case{})
			c09Drain(&c09Case{Level: "drain", Senders: 2, Sends: 200, Procs: c.Procs}, env, tmp)
			for _, f := range tmp.Findings {
				if f.Status == fw.Violation {
					v.Violate("outcome-"+f.Rule, "tracer-drain", "%s", f.Msg)
				}
			}
		case "conditions":
			w := c.Width
			if w == 0 {
				w = 8
			}
			fw.Rep(env, i, func(env *fw.Env) { c17Conditions(env, v, i, c.Name, w) })
		}
		v.Add("runs", 1)
		if v.Violated() {
			break
		}
	}
}

func init() {
	fw.Register(&fw.Prop{
		ID:            "C17",
		Cases:         c17Cases,
		OnePerProcess: true,
		Race:          true,
		Run: func(c fw.Case, env *fw.Env) *fw.V {
			v := fw.NewV(c)
			var cc c17Case
			if err := json.Unmarshal(c.Desc, &cc); err != nil {
				v.Inconclusive("descriptor", "%v", err)
				return v
			}
			c17Run(&cc, env, v)
			v.Nontrivial = true
			return v
		},
		Rule:        "race-detector build (-race, halt_on_error=0, reports parsed from the log files): storm runs of every nesting-pair program and PRNG programs with, at every round, bursts of concurrent subscribe/unsubscribe churn, CloneVariables/CloneItems/GetVariable loops, waits with expiring contexts and stranger-event deliveries, hooks at 0.3, GOMAXPROCS 4 and 16; concurrent event-based-gateway, boundary-event-race and event-delivery workloads borrowed from C06/C10/C11; process sets with message flows (instantiating throws, catch events registering with the set one after the other, concurrent set waiters) borrowed from C18; concurrent SetVariable/GetVariable/CloneVariables histories checked per key with porcupine; every workload repeated 3 (quick) / 25 (thorough) times, one process per workload; verdict = race reports with an engine frame (deduplicated by the pair of innermost /repo functions), engine panics, and storm-oracle violations; distinct = descriptor hash, all non-trivial; conditions-more cases (192 branches) and process sets of link kind fanstart",
		WatchdogSec: 300,
		MaxShards:   8,
		Assumptions: []string{"a race is only reported on schedules that occur; the evidence lists the deduplicated access pairs seen, not 'race-free'", "reports whose two accesses are both innermost in third-party code on library-private state are listed as third_party_reports and are not verdicts"},
	})
}
