package props

import (
	"encoding/json"
	"fmt"
	"strings"

	"verif/internal/drive"
	"verif/internal/perturb"

	"verif/internal/fw"
	"verif/internal/gen"
	"verif/internal/step"
)

// program = AST + number of initial variables
type c01Prog struct {
	Name   string
	AST    *gen.Block
	NV     int
	Family string
	LoopVar bool
}

// family of a PRNG program: which constructs with recorded engine defects it contains.
func familyOf(ast *gen.Block) string {
	or := false
	ast.Walk(func(b *gen.Block) {
		if b.Kind == "or" {
			or = true
		}
	})
	if or {
		return "with-inclusive"
	}
	return "core"
}

func forcedPairs(rng *fw.Rng) []c01Prog {
	var out []c01Prog
	ks := []string{"xor", "and", "or", "loop", "condtask", "sub"}
	for _, outer := range ks {
		for _, inner := range ks {
			if inner == "condtask" && outer != "sub" {
				continue // a conditional-flow task consumes its tokens: only legal as the tail of a scope
			}
			gn := &gen.Gen{R: rng, NVars: 3, Budget: 10}
			in := gn.Block(inner, 1, true)
			var body *gen.Block
			switch outer {
			case "xor", "or":
				body = &gen.Block{Kind: outer, Default: 1, Kids: []*gen.Block{in, gen.T()},
					Conds: []*gen.Cond{{Kind: "var", Var: "v0", Op: ">", Val: 0}, nil}, Ends: []bool{false, false}}
			case "and":
				body = &gen.Block{Kind: "and", Default: -1, Kids: []*gen.Block{in, gen.T()}}
			case "loop":
				body = &gen.Block{Kind: "loop", Default: -1, Var: "cntL", Bound: 2, Kids: []*gen.Block{in}}
			case "condtask":
				body = &gen.Block{Kind: "condtask", Default: -1, Kids: []*gen.Block{in, gen.T(), gen.T()}, Writes: []string{"ownP"},
					Conds: []*gen.Cond{nil, {Kind: "var", Var: "v1", Op: ">", Val: 0}, {Kind: "var", Var: "ownP", Op: ">", Val: 0}}}
			case "sub":
				body = &gen.Block{Kind: "sub", Default: -1, Kids: []*gen.Block{in}}
			}
			var ast *gen.Block
			if outer == "condtask" {
				ast = gen.Seq(gen.T(), body)
			} else {
				ast = gen.Seq(gen.T(), body, gen.T())
			}
			out = append(out, c01Prog{Name: outer + ">" + inner, AST: ast, NV: 3, Family: "pair:" + outer + ">" + inner})
		}
	}
	return out
}

// forcedData: data flowing from one token to a later condition on another token (race-free: the writer's
// token has been joined / its sub-process has ended before the reading gateway is reached). The token that
// reads has already evaluated a condition before the write happens.
func forcedData() []c01Prog {
	first := func() *gen.Block { // a gateway decided on an initial variable before anything is written
		return &gen.Block{Kind: "xor", Default: 1, Kids: []*gen.Block{gen.T(), gen.T()},
			Conds: []*gen.Cond{{Kind: "var", Var: "v0", Op: ">", Val: 0}, nil}, Ends: []bool{false, false}}
	}
	read := func(w string, op string) *gen.Block {
		return &gen.Block{Kind: "xor", Default: 1, Kids: []*gen.Block{gen.T(), gen.T()},
			Conds: []*gen.Cond{{Kind: "var", Var: w, Op: op, Val: 0}, nil}, Ends: []bool{false, false}}
	}
	var out []c01Prog
	add := func(name string, ast *gen.Block) {
		out = append(out, c01Prog{Name: "data:" + name, AST: ast, NV: 2, Family: "data:" + name})
	}
	add("sub", gen.Seq(first(), &gen.Block{Kind: "sub", Default: -1, Kids: []*gen.Block{gen.T("w1")}}, read("w1", ">")))
	add("sub-nested", gen.Seq(first(), &gen.Block{Kind: "sub", Default: -1, Kids: []*gen.Block{
		gen.Seq(gen.T(), &gen.Block{Kind: "sub", Default: -1, Kids: []*gen.Block{gen.T("w1")}}, read("w1", "=="))}}, read("w1", ">")))
	add("and", gen.Seq(first(), &gen.Block{Kind: "and", Default: -1, Kids: []*gen.Block{gen.T("w1"), gen.T("w2")}}, read("w1", ">"), read("w2", "==")))
	add("and-inner", gen.Seq(first(), &gen.Block{Kind: "and", Default: -1, Kids: []*gen.Block{
		gen.Seq(gen.T("w1"), read("w1", ">")), gen.Seq(first(), gen.T("w2"))}}, read("w2", ">")))
	add("loop-sub", gen.Seq(first(), &gen.Block{Kind: "loop", Default: -1, Var: "cntD", Bound: 2, Kids: []*gen.Block{
		gen.Seq(&gen.Block{Kind: "sub", Default: -1, Kids: []*gen.Block{gen.T("w1")}}, read("w1", ">"))}}, read("w1", "==")))
	add("xor-branch", gen.Seq(first(), &gen.Block{Kind: "xor", Default: 1, Kids: []*gen.Block{gen.T("w1"), gen.T("w2")},
		Conds: []*gen.Cond{{Kind: "var", Var: "v1", Op: ">", Val: 0}, nil}, Ends: []bool{false, false}}, read("w1", ">"), read("w2", ">")))
	// the same through data objects: a task stores a data output (DoWithObjects), a later condition looks the
	// data object up (getDataObject); with and without an embedded sub-process elsewhere in the process (every
	// sub-process scope gets a data locator of its own)
	readObj := func(o string, op string) *gen.Block {
		return &gen.Block{Kind: "xor", Default: 1, Kids: []*gen.Block{gen.T(), gen.T()},
			Conds: []*gen.Cond{{Kind: "obj", Var: o, Op: op, Val: 0}, nil}, Ends: []bool{false, false}}
	}
	add("object", gen.Seq(first(), gen.T("do1"), readObj("do1", ">")))
	add("object-sub-behind", gen.Seq(first(), gen.T("do1"), readObj("do1", ">"), &gen.Block{Kind: "sub", Default: -1, Kids: []*gen.Block{gen.T()}}))
	add("object-sub-before", gen.Seq(&gen.Block{Kind: "sub", Default: -1, Kids: []*gen.Block{gen.T()}}, gen.T("do1"), readObj("do1", ">"), gen.T("do1"), readObj("do1", "==")))
	add("object-in-sub", gen.Seq(first(), &gen.Block{Kind: "sub", Default: -1, Kids: []*gen.Block{gen.Seq(gen.T("do1"), readObj("do1", ">"))}}, readObj("do1", ">")))
	add("object-decoy", gen.Seq(first(), gen.T("dx1"), readObj("dx1", ">"), gen.T("dx1"), readObj("dx1", "==")))
	add("object-decoy-sub", gen.Seq(first(), gen.T("dx1"), &gen.Block{Kind: "sub", Default: -1, Kids: []*gen.Block{gen.Seq(gen.T(), readObj("dx1", ">"))}}, readObj("dx1", ">")))
	add("condtask", gen.Seq(first(), &gen.Block{Kind: "sub", Default: -1, Kids: []*gen.Block{gen.T("w1")}},
		&gen.Block{Kind: "condtask", Default: -1, Kids: []*gen.Block{gen.T(), gen.T(), gen.T()},
			Conds: []*gen.Cond{nil, {Kind: "var", Var: "w1", Op: ">", Val: 0}, {Kind: "var", Var: "w1", Op: "==", Val: 0}}}))
	return out
}

func randomProgs(rng *fw.Rng, n, depth, budget int) []c01Prog {
	var out []c01Prog
	for i := 0; i < n; i++ {
		nv := 2 + rng.Intn(3)
		gn := &gen.Gen{R: rng, NVars: nv, Budget: budget, NoOr: i%5 < 3, Data: i%2 == 1, Fail: i%4 == 2}
		var kids []*gen.Block
		first := gn.Block("task", depth, false)
		kids = append(kids, first)
		gn.Settle(first)
		nb := 1 + rng.Intn(3)
		for j := 0; j < nb; j++ {
			last := j == nb-1
			k := gn.Block("", depth, last)
			kids = append(kids, k)
			if k.Kind == "condtask" {
				break
			}
			gn.Settle(k)
		}
		ast := gen.Seq(kids...)
		out = append(out, c01Prog{Name: fmt.Sprintf("rnd%d", i), AST: ast, NV: nv, Family: familyOf(ast)})
	}
	return out
}

// loopVarProgs: the same gateway decides differently on later visits because its conditions read the
// counter of the enclosing loop (0 during the first iteration). Forced shapes: a gateway (directly in the
// loop, in a sub-process, two levels down next to a parallel branch) takes a different flow on each visit,
// the default flow first and conditional ones later, or finds no flow on a later visit (error trace; the
// token stays at the gateway, so the loop ends there); PRNG programs around them.
func loopVarProgs(rng *fw.Rng, n, depth, budget int) []c01Prog {
	var out []c01Prog
	cv := func(v, op string, val int64) *gen.Cond { return &gen.Cond{Kind: "var", Var: v, Op: op, Val: val} }
	sub := func(b *gen.Block) *gen.Block { return &gen.Block{Kind: "sub", Default: -1, Kids: []*gen.Block{b}} }
	loop := func(b *gen.Block, bound int) *gen.Block {
		return &gen.Block{Kind: "loop", Default: -1, Var: "cntV", Bound: bound, Kids: []*gen.Block{b}}
	}
	gw := func(kind string, def int, conds ...*gen.Cond) *gen.Block {
		b := &gen.Block{Kind: kind, Default: def, Conds: conds}
		for range conds {
			b.Kids = append(b.Kids, gen.T())
			b.Ends = append(b.Ends, false)
		}
		return b
	}
	add := func(name string, ast *gen.Block) {
		out = append(out, c01Prog{Name: "loopvar:" + name, AST: ast, NV: 2, Family: "loopvar:" + name, LoopVar: true})
	}
	for _, kind := range []string{"or", "xor"} {
		// the third flow on the first visit, the first on the second, two (or: both; xor: the first) on the third
		add(kind+"-late", gen.Seq(gen.T(), loop(sub(gw(kind, -1, cv("cntV", ">", 0), cv("cntV", ">", 1), cv("cntV", "==", 0))), 3), gen.T()))
		// a flow on the first visit only: the later visits find none
		add(kind+"-early", gen.Seq(gen.T(), loop(sub(gw(kind, -1, cv("cntV", "==", 0), cv("v0", ">", 5))), 3), gen.T()))
		// with a default flow: default first, then the conditional ones
		add(kind+"-default", gen.Seq(gen.T(), loop(gw(kind, 2, cv("cntV", ">", 0), cv("cntV", "==", 1), nil), 3), gen.T()))
		// the erring gateway two sub-process levels down, next to a branch that always runs
		add(kind+"-deep", gen.Seq(gen.T(), loop(sub(&gen.Block{Kind: "and", Default: -1, Kids: []*gen.Block{
			sub(gw(kind, -1, cv("cntV", ">", 0), cv("v0", ">", 0))), gen.T()}}), 2), gen.T()))
	}
	for i := 0; i < n; i++ {
		nv := 2 + rng.Intn(2)
		gn := &gen.Gen{R: rng, NVars: nv, Budget: budget, NoOr: i%3 == 0, LoopVar: true}
		body := gn.Block("loop", depth, false)
		if i%2 == 0 {
			// the loop body as a whole is a sub-process: a token that ends in an error inside does not end the loop
			body.Kids[0] = sub(body.Kids[0])
		}
		ast := gen.Seq(gen.T(), body, gen.T())
		out = append(out, c01Prog{Name: fmt.Sprintf("loopvar:rnd%d", i), AST: ast, NV: nv, Family: familyOf(ast), LoopVar: true})
	}
	return out
}

// emptyBranchProgs: blocks one of whose branches has no node at all - a sequence flow straight from the split to
// the merge - at every position among the branches, for parallel, exclusive and inclusive blocks, alone, nested
// and inside a sub-process and a loop.
func emptyBranchProgs() []c01Prog {
	var out []c01Prog
	cv := func(v string) *gen.Cond { return &gen.Cond{Kind: "var", Var: v, Op: ">", Val: 0} }
	add := func(name string, ast *gen.Block) {
		out = append(out, c01Prog{Name: "empty:" + name, AST: ast, NV: 2, Family: "empty:" + name})
	}
	for pos := 0; pos < 3; pos++ {
		kids := []*gen.Block{gen.T(), gen.T(), gen.T()}
		kids[pos] = gen.Empty()
		and := &gen.Block{Kind: "and", Default: -1, Kids: kids}
		add(fmt.Sprintf("and-pos%d", pos), gen.Seq(gen.T(), and, gen.T()))
		add(fmt.Sprintf("and-pos%d-sub", pos), gen.Seq(gen.T(), &gen.Block{Kind: "sub", Default: -1, Kids: []*gen.Block{and}}, gen.T()))
		add(fmt.Sprintf("and-pos%d-loop", pos), gen.Seq(gen.T(), &gen.Block{Kind: "loop", Default: -1, Var: "cntE", Bound: 2, Kids: []*gen.Block{and}}, gen.T()))
		for _, kind := range []string{"xor", "or"} {
			k2 := []*gen.Block{gen.T(), gen.T(), gen.T()}
			k2[pos] = gen.Empty()
			conds := []*gen.Cond{cv("v0"), cv("v1"), nil}
			b := &gen.Block{Kind: kind, Default: 2, Kids: k2, Conds: conds, Ends: []bool{false, false, false}}
			add(fmt.Sprintf("%s-pos%d", kind, pos), gen.Seq(gen.T(), b, gen.T()))
		}
	}
	add("and-two-empty", gen.Seq(gen.T(), &gen.Block{Kind: "and", Default: -1, Kids: []*gen.Block{gen.Empty(), gen.T(), gen.Empty()}}, gen.T()))
	add("and-nested", gen.Seq(gen.T(), &gen.Block{Kind: "and", Default: -1, Kids: []*gen.Block{gen.T(),
		&gen.Block{Kind: "and", Default: -1, Kids: []*gen.Block{gen.T(), gen.Empty()}}}}, gen.T()))
	return out
}

// taskLoopProgs: loops closed by conditional flows on a task (the task is requested once per iteration and
// takes a different one of its outgoing flows in the last iteration), with the leaving flow listed first or
// last, 2..4 iterations, nested in each other and around / inside the other blocks.
func taskLoopProgs(rng *fw.Rng, n, depth, budget int) []c01Prog {
	var out []c01Prog
	tl := func(body *gen.Block, v string, bound int, exitFirst bool) *gen.Block {
		return &gen.Block{Kind: "loop", Default: -1, Var: v, Bound: bound, Kids: []*gen.Block{body}, TaskExit: true, ExitFirst: exitFirst}
	}
	add := func(name string, ast *gen.Block) {
		out = append(out, c01Prog{Name: "taskloop:" + name, AST: ast, NV: 2, Family: "taskloop:" + name})
	}
	for _, ef := range []bool{false, true} {
		tag := fmt.Sprintf("exitfirst=%v", ef)
		for bound := 2; bound <= 4; bound++ {
			add(fmt.Sprintf("plain-%d-%s", bound, tag), gen.Seq(gen.T(), tl(gen.T(), "cntT", bound, ef), gen.T()))
		}
		add("nested-"+tag, gen.Seq(gen.T(), tl(tl(gen.T(), "cntI", 2, !ef), "cntT", 3, ef), gen.T()))
		add("and-"+tag, gen.Seq(gen.T(), tl(&gen.Block{Kind: "and", Default: -1, Kids: []*gen.Block{gen.T(), gen.T()}}, "cntT", 3, ef), gen.T()))
		add("sub-"+tag, gen.Seq(gen.T(), tl(&gen.Block{Kind: "sub", Default: -1, Kids: []*gen.Block{gen.T()}}, "cntT", 3, ef), gen.T()))
		add("insub-"+tag, gen.Seq(gen.T(), &gen.Block{Kind: "sub", Default: -1, Kids: []*gen.Block{tl(gen.T(), "cntT", 3, ef)}}, gen.T()))
	}
	for i := 0; i < n; i++ {
		nv := 2 + rng.Intn(2)
		gn := &gen.Gen{R: rng, NVars: nv, Budget: budget, NoOr: true, TaskLoops: true}
		body := gn.Block("loop", depth, false)
		ast := gen.Seq(gen.T(), body, gen.T())
		out = append(out, c01Prog{Name: fmt.Sprintf("taskloop:rnd%d", i), AST: ast, NV: nv, Family: "taskloop:rnd"})
	}
	return out
}

func hasOr(g *gen.Graph) bool {
	for _, n := range g.Nodes {
		if n.Kind == gen.Or {
			return true
		}
	}
	return false
}

func assignments(nv, max int, rng *fw.Rng) []map[string]int64 {
	var out []map[string]int64
	total := 1 << nv
	mk := func(bits int) map[string]int64 {
		m := map[string]int64{}
		for i := 0; i < nv; i++ {
			m[fmt.Sprintf("v%d", i)] = int64((bits >> i) & 1)
		}
		return m
	}
	if total <= max {
		for b := 0; b < total; b++ {
			out = append(out, mk(b))
		}
		return out
	}
	seen := map[int]bool{}
	for len(out) < max {
		b := rng.Intn(total)
		if !seen[b] {
			seen[b] = true
			out = append(out, mk(b))
		}
	}
	return out
}

// zeroData gives the task-written data variables of a program their initial value: they exist from the
// start (0); the k-th request of their task writes k+1.
func zeroData(vars map[string]int64, ast *gen.Block) map[string]int64 {
	for _, w := range gen.WVars(ast) {
		vars[w] = 0
	}
	return vars
}

// c01CasesFor expands programs into stepwise (+ storm) cases.
func c01CasesFor(progs []c01Prog, rng *fw.Rng, maxData, maxOrders, stormReps int, wrap func(*gen.Block) *gen.Block) []fw.Case {
	var cs []fw.Case
	for pi, p := range progs {
		ast := p.AST
		if wrap != nil {
			ast = wrap(ast)
			if ast == nil {
				continue
			}
		}
		g := gen.Lower("p", ast)
		// every third program is written with its sequence flows in reverse document order: the order in which
		// a node lists its outgoing flows decides, not the order of the flow elements in the document
		g.FlowsReversed = pi%3 == 2
		for di, vars := range assignments(p.NV, maxData, rng) {
			zeroData(vars, ast)
			if p.LoopVar {
				for _, l := range gen.LoopVars(ast) {
					vars[l] = 0
				}
			}
			base := step.Case{Name: fmt.Sprintf("%s/d%d", p.Name, di), G: g, Vars: vars, Family: p.Family, Lenient: hasOr(g)}
			orders, _ := step.Orders(&base, maxOrders, rng)
			if len(orders) > maxOrders {
				orders = orders[:maxOrders]
			}
			for _, o := range orders {
				sc := base
				sc.Order = o
				sc.Waiters = 1
				cs = append(cs, fw.MkCase("stepwise", &sc))
			}
			if stormReps > 0 && di == 0 {
				sc := base
				sc.Storm = true
				sc.Hooks = 0.3
				sc.Reps = stormReps
				cs = append(cs, fw.MkCase("storm", &sc))
			}
		}
	}
	return cs
}

func c01Cases(tier string, seed uint64) []fw.Case {
	rng := fw.NewRng(seed, "C01")
	progs := append(forcedPairs(rng), forcedData()...)
	var cs []fw.Case
	if tier == "thorough" {
		progs = append(progs, randomProgs(rng, 1500, 4, 25)...)
		cs = c01CasesFor(progs, rng, 8, 40, 5, nil)
	} else {
		progs = append(progs, randomProgs(rng, 120, 3, 14)...)
		cs = c01CasesFor(progs, rng, 3, 5, 2, nil)
	}
	// gateways that decide differently on later visits (loop counters in conditions)
	lrng := fw.NewRng(seed, "C01loopvar")
	if tier == "thorough" {
		cs = append(cs, c01CasesFor(loopVarProgs(lrng, 400, 4, 20), lrng, 4, 12, 2, nil)...)
	} else {
		cs = append(cs, c01CasesFor(loopVarProgs(lrng, 40, 3, 12), lrng, 2, 3, 1, nil)...)
	}
	// branches without any node
	erng := fw.NewRng(seed, "C01empty")
	if tier == "thorough" {
		cs = append(cs, c01CasesFor(emptyBranchProgs(), erng, 4, 12, 3, nil)...)
	} else {
		cs = append(cs, c01CasesFor(emptyBranchProgs(), erng, 4, 4, 1, nil)...)
	}
	// loops closed by conditional flows on a task
	trng := fw.NewRng(seed, "C01taskloop")
	if tier == "thorough" {
		cs = append(cs, c01CasesFor(taskLoopProgs(trng, 300, 4, 20), trng, 4, 12, 2, nil)...)
	} else {
		cs = append(cs, c01CasesFor(taskLoopProgs(trng, 30, 3, 12), trng, 2, 3, 1, nil)...)
	}
	// instances sharing one definitions value
	twinProgs := append(forcedPairs(fw.NewRng(seed, "C01")), forcedData()...)
	ntwin := 40
	if tier == "thorough" {
		ntwin = 400
	}
	twinProgs = append(twinProgs, randomProgs(fw.NewRng(seed, "C01twin"), ntwin, 3, 14)...)
	cs = append(cs, c01TwinCases(twinProgs, rng)...)
	// deterministic schedule perturbation: on the forced programs one goroutine falls behind at the n-th hit
	// of an instrumentation site (stepwise with the first answer order, and one storm run)
	nths := []int{1, 3}
	if tier == "thorough" {
		nths = []int{1, 2, 3, 4, 6, 9, 14}
	}
	forced := append(forcedPairs(fw.NewRng(seed, "C01")), forcedData()...)
	for _, p := range forced {
		g := gen.Lower("p", p.AST)
		vars := zeroData(assignments(p.NV, 1, rng)[0], p.AST)
		base := step.Case{Name: p.Name + "/delay", G: g, Vars: vars, Family: p.Family, Lenient: hasOr(g)}
		orders, _ := step.Orders(&base, 1, rng)
		if len(orders) == 0 {
			continue
		}
		for _, site := range delaySites {
			for _, nth := range nths {
				sc := base
				sc.Order = orders[0]
				sc.Waiters = 1
				sc.DelaySite, sc.DelayNth, sc.DelayUs = site, nth, 300
				sc.Name = fmt.Sprintf("%s/delay:%s#%d", p.Name, site, nth)
				cs = append(cs, fw.MkCase("stepwise-delay", &sc))
				if tier == "thorough" {
					st := sc
					st.Order = nil
					st.Storm = true
					st.Reps = 1
					cs = append(cs, fw.MkCase("storm-delay", &st))
				}
			}
		}
	}
	return fw.Number(cs)
}

// c01Twin: instances that share one parsed definitions value. A third instance is started first and stays
// parked at its first tasks for the whole case; then instance A runs stepwise against its reference, then
// instance B with the opposite variable assignment (other branches). State kept on the definitions model,
// on package level or in caches keyed by diagram elements would make them influence each other.
type c01Twin struct {
	Name string    `json:"name"`
	A    step.Case `json:"a"`
	B    step.Case `json:"b"`
}

func c01TwinCases(progs []c01Prog, rng *fw.Rng) []fw.Case {
	var cs []fw.Case
	for _, p := range progs {
		g := gen.Lower("p", p.AST)
		va := zeroData(assignments(p.NV, 1, rng)[0], p.AST)
		vb := map[string]int64{}
		for k, x := range va {
			vb[k] = x
			if k[0] == 'v' {
				vb[k] = 1 - x
			}
		}
		t := c01Twin{Name: p.Name + "/twin"}
		ok := true
		for i, vars := range []map[string]int64{va, vb} {
			sc := step.Case{Name: fmt.Sprintf("%s/twin%d", p.Name, i), G: g, Vars: vars, Family: p.Family, Lenient: hasOr(g), Waiters: 1}
			orders, _ := step.Orders(&sc, 1, rng)
			if len(orders) == 0 {
				ok = false
				break
			}
			sc.Order = orders[0]
			if i == 0 {
				t.A = sc
			} else {
				t.B = sc
			}
		}
		if ok {
			cs = append(cs, fw.MkCase("twin", &t))
		}
	}
	return cs
}

func c01RunTwin(c fw.Case, env *fw.Env) *fw.V {
	v := fw.NewV(c)
	var t c01Twin
	if err := json.Unmarshal(c.Desc, &t); err != nil {
		v.Inconclusive("descriptor", "%v", err)
		return v
	}
	defs, _, err := step.Parse(t.A.G)
	if err != nil {
		v.Inconclusive("parse", "%v", err)
		return v
	}
	perturb.Off()
	// the bystander: same definitions value, alive (parked at its first tasks) during both runs
	o := drive.Opts{}
	o.Vars = map[string]any{}
	for k, x := range t.A.Vars {
		o.Vars[k] = int(x)
	}
	by, err := drive.New(env.Label, defs, o)
	if err != nil {
		v.Violate("new-process-error", "error", "%v", err)
		return v
	}
	defer by.Cancel()
	if err := by.Start(); err != nil {
		v.Violate("start-error", "error", "%v", err)
		return v
	}
	by.Quiesce(step.Watchdog)
	for i, sc := range []*step.Case{&t.A, &t.B} {
		sc.Defs = defs
		r := step.RunStepwise("C01", sc, env, v)
		v.Add("twin-runs", 1)
		if r != nil {
			v.Add("steps", r.Steps)
		}
		if v.Violated() {
			for k := range v.Findings {
				f := &v.Findings[k]
				if f.Status == fw.Violation && !strings.HasPrefix(f.Msg, "[instance") {
					f.Msg = fmt.Sprintf("[instance %d of 3 sharing one definitions value] %s", i+1, f.Msg)
				}
			}
			break
		}
	}
	// the known divergence of nested inclusive gateways is one finding, as in the single-instance runs
	if t.A.Family != "" {
		for i := range v.Findings {
			f := &v.Findings[i]
			if f.Status == fw.Violation {
				if f.Class != t.A.Family {
					f.Class = t.A.Family
				}
				if strings.HasPrefix(t.A.Family, "with-inclusive") && divergence(f.Rule) {
					f.Rule = "diverges-from-reference"
				}
			}
		}
	}
	v.Nontrivial = true
	return v
}

// delaySites: the instrumentation sites a single-instance program can reach
var delaySites = []string{"tracer.bcast", "tracer.send", "tracer.sub", "tracer.unsub", "flow.loop", "flow.action", "flow.fork",
	"gw.parallel.next", "gw.exclusive.next", "gw.exclusive.report", "gw.inclusive.next", "gw.inclusive.tracker", "gw.inclusive.activity",
	"act.relay", "task.do", "task.process", "task.sent", "process.started", "process.monitor", "sub.subscribed", "relay.forward"}

func init() {
	fw.Register(&fw.Prop{
		ID:    "C01",
		Cases: c01Cases,
		Run: func(c fw.Case, env *fw.Env) *fw.V {
			if c.Kind == "twin" {
				return c01RunTwin(c, env)
			}
			return runStep("C01", c, env, nil)
		},
		Rule: "block-structured programs (every legal ordered nesting pair of {xor,and,or,loop,conditional-flow task,sub-process} + data-flow programs in which a condition reads what a task on another, already joined token wrote (sub-process, nested, parallel block, loop, exclusive branch, conditional flows) + PRNG programs, depth<=3/4, half of them with task-written data variables read by later conditions, a quarter with conditions that cannot be evaluated: error trace, alternative not taken) x variable assignments steering the conditions x answer orders (all if <=limit else PRNG-drawn) run stepwise against the reference token game at every quiescent point, plus storm runs; the forced programs again with a deterministic schedule perturbation (the goroutine making the n-th hit of each of 21 instrumentation sites pauses 300 us); twin runs: three instances created from ONE parsed definitions value (a bystander parked at its first tasks, then two stepwise runs with opposite variable assignments), each against its own reference; non-trivial = >=1 gateway/conditional flow and (>=2 requests pending at once or a condition decided a route); distinct = descriptor hash; forced data programs object-decoy / object-decoy-sub (a data object whose id differs from its name next to another one whose id is that name)",
		Assumptions: []string{"programs are block-structured and data-race-free by construction (conditions read variables no concurrently live branch writes)", "reference token game is the oracle"},
	})
}
