package props

import (
	"fmt"

	"verif/internal/fw"
	"verif/internal/gen"
	"verif/internal/step"
)

// program = AST + number of initial variables
type c01Prog struct {
	Name   string
	AST    *gen.Block
	NV     int
	Family string
}

// family of a PRNG program: which constructs with recorded engine defects it contains.
func familyOf(ast *gen.Block) string {
	or := false
	ast.Walk(func(b *gen.Block) {
		if b.Kind == "or" {
			or = true
		}
	})
	if or {
		return "with-inclusive"
	}
	return "core"
}

func forcedPairs(rng *fw.Rng) []c01Prog {
	var out []c01Prog
	ks := []string{"xor", "and", "or", "loop", "condtask", "sub"}
	for _, outer := range ks {
		for _, inner := range ks {
			if inner == "condtask" && outer != "sub" {
				continue // a conditional-flow task consumes its tokens: only legal as the tail of a scope
			}
			gn := &gen.Gen{R: rng, NVars: 3, Budget: 10}
			in := gn.Block(inner, 1, true)
			var body *gen.Block
			switch outer {
			case "xor", "or":
				body = &gen.Block{Kind: outer, Default: 1, Kids: []*gen.Block{in, gen.T()},
					Conds: []*gen.Cond{{Kind: "var", Var: "v0", Op: ">", Val: 0}, nil}, Ends: []bool{false, false}}
			case "and":
				body = &gen.Block{Kind: "and", Default: -1, Kids: []*gen.Block{in, gen.T()}}
			case "loop":
				body = &gen.Block{Kind: "loop", Default: -1, Var: "cntL", Bound: 2, Kids: []*gen.Block{in}}
			case "condtask":
				body = &gen.Block{Kind: "condtask", Default: -1, Kids: []*gen.Block{in, gen.T(), gen.T()}, Writes: []string{"ownP"},
					Conds: []*gen.Cond{nil, {Kind: "var", Var: "v1", Op: ">", Val: 0}, {Kind: "var", Var: "ownP", Op: ">", Val: 0}}}
			case "sub":
				body = &gen.Block{Kind: "sub", Default: -1, Kids: []*gen.Block{in}}
			}
			var ast *gen.Block
			if outer == "condtask" {
				ast = gen.Seq(gen.T(), body)
			} else {
				ast = gen.Seq(gen.T(), body, gen.T())
			}
			out = append(out, c01Prog{Name: outer + ">" + inner, AST: ast, NV: 3, Family: "pair:" + outer + ">" + inner})
		}
	}
	return out
}

// forcedData: data flowing from one token to a later condition on another token (race-free: the writer's
// token has been joined / its sub-process has ended before the reading gateway is reached). The token that
// reads has already evaluated a condition before the write happens.
func forcedData() []c01Prog {
	first := func() *gen.Block { // a gateway decided on an initial variable before anything is written
		return &gen.Block{Kind: "xor", Default: 1, Kids: []*gen.Block{gen.T(), gen.T()},
			Conds: []*gen.Cond{{Kind: "var", Var: "v0", Op: ">", Val: 0}, nil}, Ends: []bool{false, false}}
	}
	read := func(w string, op string) *gen.Block {
		return &gen.Block{Kind: "xor", Default: 1, Kids: []*gen.Block{gen.T(), gen.T()},
			Conds: []*gen.Cond{{Kind: "var", Var: w, Op: op, Val: 0}, nil}, Ends: []bool{false, false}}
	}
	var out []c01Prog
	add := func(name string, ast *gen.Block) {
		out = append(out, c01Prog{Name: "data:" + name, AST: ast, NV: 2, Family: "data:" + name})
	}
	add("sub", gen.Seq(first(), &gen.Block{Kind: "sub", Default: -1, Kids: []*gen.Block{gen.T("w1")}}, read("w1", ">")))
	add("sub-nested", gen.Seq(first(), &gen.Block{Kind: "sub", Default: -1, Kids: []*gen.Block{
		gen.Seq(gen.T(), &gen.Block{Kind: "sub", Default: -1, Kids: []*gen.Block{gen.T("w1")}}, read("w1", "=="))}}, read("w1", ">")))
	add("and", gen.Seq(first(), &gen.Block{Kind: "and", Default: -1, Kids: []*gen.Block{gen.T("w1"), gen.T("w2")}}, read("w1", ">"), read("w2", "==")))
	add("and-inner", gen.Seq(first(), &gen.Block{Kind: "and", Default: -1, Kids: []*gen.Block{
		gen.Seq(gen.T("w1"), read("w1", ">")), gen.Seq(first(), gen.T("w2"))}}, read("w2", ">")))
	add("loop-sub", gen.Seq(first(), &gen.Block{Kind: "loop", Default: -1, Var: "cntD", Bound: 2, Kids: []*gen.Block{
		gen.Seq(&gen.Block{Kind: "sub", Default: -1, Kids: []*gen.Block{gen.T("w1")}}, read("w1", ">"))}}, read("w1", "==")))
	add("xor-branch", gen.Seq(first(), &gen.Block{Kind: "xor", Default: 1, Kids: []*gen.Block{gen.T("w1"), gen.T("w2")},
		Conds: []*gen.Cond{{Kind: "var", Var: "v1", Op: ">", Val: 0}, nil}, Ends: []bool{false, false}}, read("w1", ">"), read("w2", ">")))
	add("condtask", gen.Seq(first(), &gen.Block{Kind: "sub", Default: -1, Kids: []*gen.Block{gen.T("w1")}},
		&gen.Block{Kind: "condtask", Default: -1, Kids: []*gen.Block{gen.T(), gen.T(), gen.T()},
			Conds: []*gen.Cond{nil, {Kind: "var", Var: "w1", Op: ">", Val: 0}, {Kind: "var", Var: "w1", Op: "==", Val: 0}}}))
	return out
}

func randomProgs(rng *fw.Rng, n, depth, budget int) []c01Prog {
	var out []c01Prog
	for i := 0; i < n; i++ {
		nv := 2 + rng.Intn(3)
		gn := &gen.Gen{R: rng, NVars: nv, Budget: budget, NoOr: i%5 < 3, Data: i%2 == 1}
		var kids []*gen.Block
		first := gn.Block("task", depth, false)
		kids = append(kids, first)
		gn.Settle(first)
		nb := 1 + rng.Intn(3)
		for j := 0; j < nb; j++ {
			last := j == nb-1
			k := gn.Block("", depth, last)
			kids = append(kids, k)
			if k.Kind == "condtask" {
				break
			}
			gn.Settle(k)
		}
		ast := gen.Seq(kids...)
		out = append(out, c01Prog{Name: fmt.Sprintf("rnd%d", i), AST: ast, NV: nv, Family: familyOf(ast)})
	}
	return out
}

func hasOr(g *gen.Graph) bool {
	for _, n := range g.Nodes {
		if n.Kind == gen.Or {
			return true
		}
	}
	return false
}

func assignments(nv, max int, rng *fw.Rng) []map[string]int64 {
	var out []map[string]int64
	total := 1 << nv
	mk := func(bits int) map[string]int64 {
		m := map[string]int64{}
		for i := 0; i < nv; i++ {
			m[fmt.Sprintf("v%d", i)] = int64((bits >> i) & 1)
		}
		return m
	}
	if total <= max {
		for b := 0; b < total; b++ {
			out = append(out, mk(b))
		}
		return out
	}
	seen := map[int]bool{}
	for len(out) < max {
		b := rng.Intn(total)
		if !seen[b] {
			seen[b] = true
			out = append(out, mk(b))
		}
	}
	return out
}

// zeroData gives the task-written data variables of a program their initial value: they exist from the
// start (0); the k-th request of their task writes k+1.
func zeroData(vars map[string]int64, ast *gen.Block) map[string]int64 {
	for _, w := range gen.WVars(ast) {
		vars[w] = 0
	}
	return vars
}

// c01CasesFor expands programs into stepwise (+ storm) cases.
func c01CasesFor(progs []c01Prog, rng *fw.Rng, maxData, maxOrders, stormReps int, wrap func(*gen.Block) *gen.Block) []fw.Case {
	var cs []fw.Case
	for _, p := range progs {
		ast := p.AST
		if wrap != nil {
			ast = wrap(ast)
			if ast == nil {
				continue
			}
		}
		g := gen.Lower("p", ast)
		for di, vars := range assignments(p.NV, maxData, rng) {
			zeroData(vars, ast)
			base := step.Case{Name: fmt.Sprintf("%s/d%d", p.Name, di), G: g, Vars: vars, Family: p.Family, Lenient: hasOr(g)}
			orders, _ := step.Orders(&base, maxOrders, rng)
			if len(orders) > maxOrders {
				orders = orders[:maxOrders]
			}
			for _, o := range orders {
				sc := base
				sc.Order = o
				sc.Waiters = 1
				cs = append(cs, fw.MkCase("stepwise", &sc))
			}
			if stormReps > 0 && di == 0 {
				sc := base
				sc.Storm = true
				sc.Hooks = 0.3
				sc.Reps = stormReps
				cs = append(cs, fw.MkCase("storm", &sc))
			}
		}
	}
	return cs
}

func c01Cases(tier string, seed uint64) []fw.Case {
	rng := fw.NewRng(seed, "C01")
	progs := append(forcedPairs(rng), forcedData()...)
	var cs []fw.Case
	if tier == "thorough" {
		progs = append(progs, randomProgs(rng, 1500, 4, 25)...)
		cs = c01CasesFor(progs, rng, 8, 40, 5, nil)
	} else {
		progs = append(progs, randomProgs(rng, 120, 3, 14)...)
		cs = c01CasesFor(progs, rng, 3, 5, 2, nil)
	}
	// deterministic schedule perturbation: on the forced programs one goroutine falls behind at the n-th hit
	// of an instrumentation site (stepwise with the first answer order, and one storm run)
	nths := []int{1, 3}
	if tier == "thorough" {
		nths = []int{1, 2, 3, 4, 6, 9, 14}
	}
	forced := append(forcedPairs(fw.NewRng(seed, "C01")), forcedData()...)
	for _, p := range forced {
		g := gen.Lower("p", p.AST)
		vars := zeroData(assignments(p.NV, 1, rng)[0], p.AST)
		base := step.Case{Name: p.Name + "/delay", G: g, Vars: vars, Family: p.Family, Lenient: hasOr(g)}
		orders, _ := step.Orders(&base, 1, rng)
		if len(orders) == 0 {
			continue
		}
		for _, site := range delaySites {
			for _, nth := range nths {
				sc := base
				sc.Order = orders[0]
				sc.Waiters = 1
				sc.DelaySite, sc.DelayNth, sc.DelayUs = site, nth, 300
				sc.Name = fmt.Sprintf("%s/delay:%s#%d", p.Name, site, nth)
				cs = append(cs, fw.MkCase("stepwise-delay", &sc))
				if tier == "thorough" {
					st := sc
					st.Order = nil
					st.Storm = true
					st.Reps = 1
					cs = append(cs, fw.MkCase("storm-delay", &st))
				}
			}
		}
	}
	return fw.Number(cs)
}

// delaySites: the instrumentation sites a single-instance program can reach
var delaySites = []string{"tracer.bcast", "tracer.send", "tracer.sub", "tracer.unsub", "flow.loop", "flow.action", "flow.fork",
	"gw.parallel.next", "gw.exclusive.next", "gw.exclusive.report", "gw.inclusive.next", "gw.inclusive.tracker", "gw.inclusive.activity",
	"act.relay", "task.do", "task.process", "task.sent", "process.started", "process.monitor", "sub.subscribed", "relay.forward"}

func init() {
	fw.Register(&fw.Prop{
		ID:    "C01",
		Cases: c01Cases,
		Run: func(c fw.Case, env *fw.Env) *fw.V {
			return runStep("C01", c, env, nil)
		},
		Rule: "block-structured programs (every legal ordered nesting pair of {xor,and,or,loop,conditional-flow task,sub-process} + data-flow programs in which a condition reads what a task on another, already joined token wrote (sub-process, nested, parallel block, loop, exclusive branch, conditional flows) + PRNG programs, depth<=3/4, half of them with task-written data variables read by later conditions) x variable assignments steering the conditions x answer orders (all if <=limit else PRNG-drawn) run stepwise against the reference token game at every quiescent point, plus storm runs; the forced programs again with a deterministic schedule perturbation (the goroutine making the n-th hit of each of 21 instrumentation sites pauses 300 us); non-trivial = >=1 gateway/conditional flow and (>=2 requests pending at once or a condition decided a route); distinct = descriptor hash",
		Assumptions: []string{"programs are block-structured and data-race-free by construction (conditions read variables no concurrently live branch writes)", "reference token game is the oracle"},
	})
}
