package props

import (
	"bytes"
	"context"
	"encoding/json"
	"encoding/xml"
	"fmt"
	"strings"
	"sync"
	"sync/atomic"
	"time"

	"github.com/olive-io/bpmn/schema"
	bpmn "github.com/olive-io/bpmn/v2"
	"github.com/olive-io/bpmn/v2/pkg/clock"
	"github.com/olive-io/bpmn/v2/pkg/event"
	"github.com/olive-io/bpmn/v2/pkg/timer"

	"verif/internal/drive"
	"verif/internal/fw"
	"verif/internal/gen"
	"verif/internal/perturb"
	"verif/internal/quiesce"
	"verif/internal/step"
)

// symbolic clock moves, resolved against the reference's next due time
const (
	mvBefore   = iota // due - 1ns
	mvExact           // exactly due
	mvAfter           // due + 1ns
	mvHalf            // now + interval/2
	mvFar             // now + 10 intervals
	mvBack            // now - 1 interval
	mvCount
)

var mvNames = []string{"due-1ns", "due", "due+1ns", "+half", "+10x", "-1x"}

type c13Def struct {
	Kind   string `json:"kind"`   // date | duration | cycle
	N      int    `json:"n"`      // cycle repetitions (-1 = unbounded)
	Start  bool   `json:"start"`  // cycle with explicit start (base + 5 intervals)
	End    int    `json:"end"`    // cycle end bound in intervals after base (0 = none)
	Far    bool   `json:"far,omitempty"` // cycle with an end bound in the year 9999 (beyond what fits into 64-bit nanoseconds)
}

func (d c13Def) String() string {
	if d.Far {
		return fmt.Sprintf("%s-n%d-start%v-endfar", d.Kind, d.N, d.Start)
	}
	return fmt.Sprintf("%s-n%d-start%v-end%d", d.Kind, d.N, d.Start, d.End)
}

type c13Case struct {
	Name   string `json:"name"`
	Level  string `json:"level"` // timer | process
	Def    c13Def `json:"def"`
	Prefix []int  `json:"prefix"`
	MaxLen int    `json:"maxlen"`
	AllCancel bool `json:"allcancel"` // enumerate every cancellation point (else one PRNG point per history)
	Seed   uint64 `json:"seed"`
	// host level: definition text ("duration:PT0.04S", "cycle:R3/PT0.03S") and after how many firings the
	// context is cancelled (-1 = never, 0 = before the first)
	HostDef    string `json:"host_def,omitempty"`
	HostCancel int    `json:"host_cancel,omitempty"`
}

const c13Interval = time.Minute

var c13Base = time.Date(2030, 1, 1, 0, 0, 0, 0, time.UTC)

// an end bound "for ever": its distance from the clock does not fit into a time.Duration and its UnixNano wraps
var c13FarEnd = time.Date(9999, 12, 31, 23, 59, 59, 0, time.UTC)

func c13Defs() []c13Def {
	ds := []c13Def{{Kind: "date"}, {Kind: "duration"}}
	for _, n := range []int{0, 1, 2, 3, -1} {
		ds = append(ds, c13Def{Kind: "cycle", N: n})
	}
	ds = append(ds, c13Def{Kind: "cycle", N: 3, Start: true}, c13Def{Kind: "cycle", N: -1, Start: true},
		c13Def{Kind: "cycle", N: -1, End: 3}, c13Def{Kind: "cycle", N: 3, End: 2}, c13Def{Kind: "cycle", N: 2, Start: true, End: 8},
		c13Def{Kind: "cycle", N: 3, Far: true})
	return ds
}

func c13Cases(tier string, seed uint64) []fw.Case {
	maxLen := 4
	if tier == "thorough" {
		maxLen = 6
	}
	var cs []fw.Case
	for _, d := range c13Defs() {
		for a := 0; a < mvCount; a++ {
			for b := 0; b < mvCount; b++ {
				if tier == "thorough" {
					// finer shards: a case must stay well below the per-case watchdog
					for e := 0; e < mvCount; e++ {
						c := c13Case{Level: "timer", Def: d, Prefix: []int{a, b, e}, MaxLen: maxLen, Seed: seed}
						c.Name = fmt.Sprintf("timer/%s/%s,%s,%s", d, mvNames[a], mvNames[b], mvNames[e])
						cs = append(cs, fw.MkCase("timer", &c))
					}
					continue
				}
				c := c13Case{Level: "timer", Def: d, Prefix: []int{a, b}, MaxLen: maxLen, AllCancel: true, Seed: seed}
				c.Name = fmt.Sprintf("timer/%s/%s,%s", d, mvNames[a], mvNames[b])
				cs = append(cs, fw.MkCase("timer", &c))
			}
		}
		short := 1
		if tier == "thorough" {
			short = 2
		}
		c := c13Case{Level: "timer", Def: d, MaxLen: short, AllCancel: true, Seed: seed}
		c.Name = fmt.Sprintf("timer/%s/short", d)
		cs = append(cs, fw.MkCase("timer", &c))
	}
	for _, d := range []c13Def{{Kind: "date"}, {Kind: "duration"}, {Kind: "cycle", N: 3}, {Kind: "cycle", N: -1}, {Kind: "cycle", N: 3, Far: true}} {
		for a := 0; a < mvCount; a++ {
			c := c13Case{Level: "process", Def: d, Prefix: []int{a}, MaxLen: 3, Seed: seed}
			c.Name = fmt.Sprintf("process/%s/%s", d, mvNames[a])
			cs = append(cs, fw.MkCase("process", &c))
		}
	}
	// host clock (real time): safety rules only - never early, never more than n, none after cancellation
	for i, txt := range []string{"duration:PT1S", "cycle:R2/PT1S"} {
		for _, cancelAfter := range []int{-1, 0, 1} {
			c := c13Case{Level: "host", HostDef: txt, HostCancel: cancelAfter, Seed: seed}
			c.Name = fmt.Sprintf("host/%d/%s/cancel%d", i, txt, cancelAfter)
			cs = append(cs, fw.MkCase("host", &c))
		}
	}
	// two instances of one definitions model on one event bus and one clock, created at different times
	for _, d := range []c13Def{{Kind: "date"}, {Kind: "duration"}, {Kind: "cycle", N: 3}, {Kind: "cycle", N: -1}, {Kind: "cycle", N: 1}} {
		for a := 0; a < 5; a++ {
			c := c13Case{Level: "pair", Def: d, Prefix: []int{a}, MaxLen: 3, Seed: seed}
			c.Name = fmt.Sprintf("pair/%s/%d", d, a)
			cs = append(cs, fw.MkCase("pair", &c))
		}
	}
	return fw.Number(cs)
}

func (d c13Def) text() (tag, val string) {
	switch d.Kind {
	case "date":
		return "timeDate", c13Base.Add(5 * c13Interval).Format(time.RFC3339)
	case "duration":
		return "timeDuration", "PT5M"
	}
	r := "R"
	if d.N >= 0 {
		r = fmt.Sprintf("R%d", d.N)
	}
	switch {
	case d.Far:
		return "timeCycle", fmt.Sprintf("%s/PT1M/%s", r, c13FarEnd.Format(time.RFC3339))
	case d.Start && d.End > 0:
		// start/end form: the interval is end-start
		return "timeCycle", fmt.Sprintf("%s/%s/%s", r, c13Base.Add(5*c13Interval).Format(time.RFC3339), c13Base.Add(time.Duration(5+d.End/8)*c13Interval).Add(c13Interval).Format(time.RFC3339))
	case d.Start:
		return "timeCycle", fmt.Sprintf("%s/%s/PT1M", r, c13Base.Add(5*c13Interval).Format(time.RFC3339))
	case d.End > 0:
		return "timeCycle", fmt.Sprintf("%s/PT1M/%s", r, c13Base.Add(time.Duration(d.End)*c13Interval).Format(time.RFC3339))
	}
	return "timeCycle", r + "/PT1M"
}

func (d c13Def) definition() (schema.TimerEventDefinition, error) {
	def := schema.DefaultTimerEventDefinition()
	_, val := d.text()
	ex := schema.AnExpression{}
	if err := xml.NewDecoder(bytes.NewBufferString(fmt.Sprintf(`<bpmn:expression>%s</bpmn:expression>`, val))).Decode(&ex); err != nil {
		return def, err
	}
	switch d.Kind {
	case "date":
		def.SetTimeDate(&ex)
	case "duration":
		def.SetTimeDuration(&ex)
	default:
		def.SetTimeCycle(&ex)
	}
	return def, nil
}

// reference model of one timer (DESIGN C13)
type c13Ref struct {
	d         c13Def
	interval  time.Duration
	due       time.Time // next due time
	start     time.Time // cycle: start of the repetitions
	started   bool      // cycle: start reached
	remaining int       // cycle: firings left (-1 unbounded)
	end       *time.Time
	done      bool // no more firings ever
	fired     int
	monotone  bool
}

func newC13Ref(d c13Def, now time.Time) *c13Ref {
	r := &c13Ref{d: d, interval: c13Interval, monotone: true}
	switch d.Kind {
	case "date":
		r.due = c13Base.Add(5 * c13Interval)
		r.remaining = 1
		r.started = true
	case "duration":
		r.due = now.Add(5 * c13Interval)
		r.remaining = 1
		r.started = true
	default:
		r.remaining = d.N
		r.start = now
		if d.Start {
			r.start = c13Base.Add(5 * c13Interval)
		}
		if d.Start && d.End > 0 {
			e := c13Base.Add(time.Duration(5+d.End/8) * c13Interval).Add(c13Interval)
			r.end = &e
			r.interval = e.Sub(r.start)
		} else if d.End > 0 {
			e := c13Base.Add(time.Duration(d.End) * c13Interval)
			r.end = &e
		} else if d.Far {
			e := c13FarEnd
			r.end = &e
		}
		r.due = r.start.Add(r.interval)
		if r.remaining == 0 {
			r.done = true
		}
	}
	return r
}

// advance moves the reference clock to now and returns how many firings become due (0 or 1).
func (r *c13Ref) advance(now time.Time) int {
	if r.done {
		return 0
	}
	if r.d.Kind == "cycle" {
		if !r.started {
			if now.Before(r.start) {
				return 0
			}
			r.started = true
		}
		if r.end != nil && !now.Before(*r.end) {
			// at or after the end bound: nothing fires any more
			r.done = true
			return 0
		}
	}
	if now.Before(r.due) {
		return 0
	}
	r.fired++
	if r.remaining > 0 {
		r.remaining--
	}
	if r.remaining == 0 {
		r.done = true
	}
	r.due = now.Add(r.interval)
	return 1
}

func (r *c13Ref) target(mv int, now time.Time) time.Time {
	switch mv {
	case mvBefore:
		return r.due.Add(-time.Nanosecond)
	case mvExact:
		return r.due
	case mvAfter:
		return r.due.Add(time.Nanosecond)
	case mvHalf:
		return now.Add(r.interval / 2)
	case mvFar:
		return now.Add(10 * r.interval)
	}
	return now.Add(-r.interval)
}

type c13Fire struct {
	At  time.Time
	Seq int64
}

// instrumented clock: counts the calls the timer makes (re-arming is observed, not inferred)
type c13Clock struct {
	*clock.Mock
	untils, nows atomic.Int64
}

func (c *c13Clock) Until(t time.Time) <-chan time.Time { c.untils.Add(1); return c.Mock.Until(t) }
func (c *c13Clock) Now() time.Time                    { c.nows.Add(1); return c.Mock.Now() }

func c13History(c *c13Case, hist []int, cancelAt int, env *fw.Env, v *fw.V, label string) bool {
	def, err := c.Def.definition()
	if err != nil {
		v.Inconclusive("definition", "%v", err)
		return false
	}
	start := c13Base
	mock := &c13Clock{Mock: clock.NewMockAt(start)}
	ctx, cancel := context.WithCancel(context.Background())
	defer cancel()
	ch, err := timer.New(ctx, mock, def)
	if err != nil {
		v.Violate("timer-new-error", c.Def.String(), "timer.New failed for %v: %v", c.Def, err)
		return false
	}
	var mu sync.Mutex
	var fires []c13Fire
	closed := false
	go func() {
		for range ch {
			mu.Lock()
			fires = append(fires, c13Fire{At: mock.Mock.Now(), Seq: drive.Seq.Add(1)})
			mu.Unlock()
		}
		mu.Lock()
		closed = true
		mu.Unlock()
	}()
	ref := newC13Ref(c.Def, start)
	cls := c.Def.String()
	quiet := func() bool {
		q := quiesce.Wait(label, step.Watchdog, nil)
		v.Add("qpoints", 1)
		if !q.Quiescent {
			v.Inconclusive("watchdog", "no quiescent point: %v", quiesce.Summary(q.Gs))
			return false
		}
		return true
	}
	desc := func(i int) string {
		var ms []string
		for _, m := range hist[:i] {
			ms = append(ms, mvNames[m])
		}
		return fmt.Sprintf("%v moves %v cancel@%d", c.Def, ms, cancelAt)
	}
	expected := 0
	cancelled := false
	cancelCount := 0
	now := start
	check := func(i int) bool {
		mu.Lock()
		fs := append([]c13Fire(nil), fires...)
		cl := closed
		mu.Unlock()
		_ = cl
		// never early, at least one interval apart, never at/after the end bound
		due := newC13Ref(c.Def, start)
		next := due.due
		for k, f := range fs {
			if f.At.Before(next) {
				v.Violate("fired-early", cls, "%s: firing %d received at clock %s, before its due time %s", desc(i), k+1, f.At.Format(time.RFC3339Nano), next.Format(time.RFC3339Nano))
				return false
			}
			if due.end != nil && !f.At.Before(*due.end) {
				v.Violate("fired-after-end", cls, "%s: firing %d received at clock %s, at or after the end bound %s", desc(i), k+1, f.At.Format(time.RFC3339Nano), due.end.Format(time.RFC3339Nano))
				return false
			}
			next = f.At.Add(due.interval)
		}
		max := ref.d.N
		if c.Def.Kind != "cycle" {
			max = 1
		}
		if max >= 0 && len(fs) > max {
			v.Violate("fired-too-often", cls, "%s: %d firings, definition allows %d", desc(i), len(fs), max)
			return false
		}
		if cancelled && len(fs) > cancelCount {
			v.Violate("fired-after-cancel", cls, "%s: %d firing(s) received after cancellation", desc(i), len(fs)-cancelCount)
			return false
		}
		if !cancelled && ref.monotone && len(fs) != expected {
			v.Violate("firing-count", cls, "%s: %d firings observed at the quiescent point, reference expects %d", desc(i), len(fs), expected)
			return false
		}
		return true
	}
	if !quiet() {
		return false
	}
	expected += ref.advance(now) // a timer that is already due fires without any clock move
	if !check(0) {
		return false
	}
	for i, mv := range hist {
		if cancelAt == i && !cancelled {
			cancel()
			cancelled = true
			if !quiet() {
				return false
			}
			mu.Lock()
			cancelCount = len(fires)
			mu.Unlock()
		}
		t := ref.target(mv, now)
		if t.Before(now) {
			ref.monotone = false
		}
		now = t
		mock.Set(t)
		if ref.monotone {
			expected += ref.advance(now)
		}
		if !quiet() {
			return false
		}
		if !check(i + 1) {
			return false
		}
	}
	v.Add("clock-until-calls", int(mock.untils.Load()))
	mu.Lock()
	v.Add("firings", len(fires))
	mu.Unlock()
	return true
}

func c13Timer(c *c13Case, env *fw.Env, v *fw.V) {
	rng := fw.NewRng(c.Seed, c.Name)
	n := 0
	stop := false
	var rec func(h []int)
	rec = func(h []int) {
		if stop {
			return
		}
		if len(h) >= len(c.Prefix) {
			var cps []int
			if c.AllCancel {
				for p := -1; p < len(h); p++ {
					cps = append(cps, p)
				}
			} else {
				cps = []int{-1 + rng.Intn(len(h)+1)}
			}
			for _, cp := range cps {
				n++
				if !c13History(c, h, cp, env, v, env.Label) {
					stop = true
					return
				}
			}
		}
		if len(h) == c.MaxLen {
			return
		}
		for m := 0; m < mvCount; m++ {
			rec(append(append([]int(nil), h...), m))
		}
	}
	rec(append([]int(nil), c.Prefix...))
	v.Add("histories", n)
}

// process level: start -> timer catch event -> t -> end
func c13Process(c *c13Case, env *fw.Env, v *fw.V) {
	tag, val := c.Def.text()
	_ = tag
	kind := map[string]string{"date": "date", "duration": "duration", "cycle": "cycle"}[c.Def.Kind]
	var rec func(h []int)
	n := 0
	stop := false
	rec = func(h []int) {
		if stop {
			return
		}
		if len(h) >= 1 {
			n++
			fw.Rep(env, n, func(env *fw.Env) {
				if !c13ProcessHistory(c, kind, val, h, env, v) {
					stop = true
				}
			})
		}
		if len(h) == c.MaxLen {
			return
		}
		for m := 0; m < mvCount; m++ {
			rec(append(append([]int(nil), h...), m))
		}
	}
	rec(append([]int(nil), c.Prefix...))
	v.Add("histories", n)
}

func c13ProcessHistory(c *c13Case, kind, val string, hist []int, env *fw.Env, v *fw.V) bool {
	g := gen.NewGraph("c13")
	s := g.Add(gen.Start, "start", "")
	ce := g.Add(gen.Catch, "c", "")
	ce.Events = []gen.EventDef{{Type: "timer", Time: kind + ":" + val}}
	t := g.Add(gen.Task, "t", "")
	e := g.Add(gen.End, "end", "")
	g.Connect(s, ce, nil)
	g.Connect(ce, t, nil)
	g.Connect(t, e, nil)
	defs, _, err := step.Parse(g)
	if err != nil {
		v.Inconclusive("parse", "%v", err)
		return false
	}
	perturb.Off()
	mock := clock.NewMockAt(c13Base)
	in, err := drive.New(env.Label, defs, drive.Opts{Mock: mock})
	if err != nil {
		v.Violate("new-process-error", "error", "%v", err)
		return false
	}
	defer in.Cancel()
	ref := newC13Ref(c.Def, c13Base)
	if err := in.Start(); err != nil {
		v.Violate("start-error", "error", "%v", err)
		return false
	}
	cls := "process-" + c.Def.String()
	now := c13Base
	expect := 0
	for i, mv := range hist {
		q := in.Quiesce(step.Watchdog)
		if !q.Quiescent {
			v.Inconclusive("watchdog", "no quiescent point: %v", quiesce.Summary(q.Gs))
			return false
		}
		t := ref.target(mv, now)
		if t.Before(now) {
			return true // backwards moves are covered at the timer level
		}
		now = t
		mock.Set(t)
		fired := ref.advance(now)
		if fired > 0 && expect == 0 {
			expect = 1 // the catch event was listening for the first firing only
		}
		q = in.Quiesce(step.Watchdog)
		v.Add("qpoints", 1)
		if !q.Quiescent {
			v.Inconclusive("watchdog", "no quiescent point: %v", quiesce.Summary(q.Gs))
			return false
		}
		if got := in.Count("Task", "t"); got != expect {
			v.Violate("process-continuations", cls, "after clock moves %v the task behind the timer catch event was requested %d times, expected %d", hist[:i+1], got, expect)
			v.Log = in.Tail(30)
			return false
		}
	}
	if expect == 1 {
		for _, r := range in.Pending() {
			in.Answer(r, bpmn.DoWithResults(nil))
		}
		in.Quiesce(step.Watchdog)
		if n := in.Count("CeaseFlow", ""); n != 1 {
			v.Violate("not-complete", cls, "%d cease-flow traces after the task behind the timer was answered", n)
			return false
		}
	}
	return true
}

// pair level: two instances created from the SAME definitions value share one event bus and one mock
// clock; the second is created two and a half intervals after the first, so relative timers are due at
// different times. Each instance's catch event must continue for its own timer's firing only.
// moves: 0 = first instance's next due time - 1ns, 1 = exactly that, 2 = second's - 1ns, 3 = exactly that, 4 = +half interval
func c13Pair(c *c13Case, env *fw.Env, v *fw.V) {
	_, val := c.Def.text()
	kind := c.Def.Kind
	var rec func(h []int)
	n := 0
	stop := false
	rec = func(h []int) {
		if stop {
			return
		}
		if len(h) >= 1 {
			n++
			fw.Rep(env, n, func(env *fw.Env) {
				if !c13PairHistory(c, kind, val, h, env, v) {
					stop = true
				}
			})
		}
		if len(h) == c.MaxLen {
			return
		}
		for m := 0; m < 5; m++ {
			rec(append(append([]int(nil), h...), m))
		}
	}
	rec(append([]int(nil), c.Prefix...))
	v.Add("histories", n)
}

func c13PairHistory(c *c13Case, kind, val string, hist []int, env *fw.Env, v *fw.V) bool {
	g := gen.NewGraph("c13")
	s := g.Add(gen.Start, "start", "")
	ce := g.Add(gen.Catch, "c", "")
	ce.Events = []gen.EventDef{{Type: "timer", Time: kind + ":" + val}}
	t := g.Add(gen.Task, "t", "")
	e := g.Add(gen.End, "end", "")
	g.Connect(s, ce, nil)
	g.Connect(ce, t, nil)
	g.Connect(t, e, nil)
	defs, _, err := step.Parse(g)
	if err != nil {
		v.Inconclusive("parse", "%v", err)
		return false
	}
	perturb.Off()
	mock := clock.NewMockAt(c13Base)
	fan := event.NewFanOut()
	cls := "pair-" + c.Def.String()
	var ins [2]*drive.Inst
	var refs [2]*c13Ref
	var expect [2]int
	now := c13Base
	settle := func() bool {
		for _, in := range ins {
			if in == nil {
				continue
			}
			q := in.Quiesce(step.Watchdog)
			v.Add("qpoints", 1)
			if !q.Quiescent {
				v.Inconclusive("watchdog", "no quiescent point: %v", quiesce.Summary(q.Gs))
				return false
			}
		}
		return true
	}
	check := func(what string) bool {
		for i, in := range ins {
			if in == nil {
				continue
			}
			if got := in.Count("Task", "t"); got != expect[i] {
				v.Violate("pair-continuations", cls, "%s: instance %d (created at +%v; clock now +%v) has its task behind the timer catch event requested %d times, expected %d", what, i, []time.Duration{0, 150 * time.Second}[i], now.Sub(c13Base), got, expect[i])
				v.Log = in.Tail(30)
				return false
			}
		}
		return true
	}
	set := func(t time.Time) {
		now = t
		mock.Set(t)
		for i, r := range refs {
			if r != nil && r.advance(now) > 0 && expect[i] == 0 {
				expect[i] = 1
			}
		}
	}
	mk := func(i int) bool {
		in, err := drive.New(env.Label, defs, drive.Opts{Mock: mock, Fan: fan})
		if err != nil {
			v.Violate("new-process-error", "error", "%v", err)
			return false
		}
		ins[i] = in
		refs[i] = newC13Ref(c.Def, now)
		if err := in.Start(); err != nil {
			v.Violate("start-error", "error", "%v", err)
			return false
		}
		return settle()
	}
	defer func() {
		for _, in := range ins {
			if in != nil {
				in.Cancel()
			}
		}
	}()
	if !mk(0) {
		return false
	}
	set(c13Base.Add(150 * time.Second))
	if !settle() || !check("before the second instance is created") {
		return false
	}
	if !mk(1) || !check("after the second instance was created") {
		return false
	}
	for i, mv := range hist {
		var t time.Time
		switch mv {
		case 0:
			t = refs[0].due.Add(-time.Nanosecond)
		case 1:
			t = refs[0].due
		case 2:
			t = refs[1].due.Add(-time.Nanosecond)
		case 3:
			t = refs[1].due
		default:
			t = now.Add(c13Interval / 2)
		}
		if t.Before(now) {
			return true
		}
		set(t)
		if !settle() || !check(fmt.Sprintf("after clock moves %v", hist[:i+1])) {
			return false
		}
	}
	return true
}

// c13Host: timer.New over the real host clock with intervals of one second (the smallest the duration syntax allows). Only what a loaded machine
// cannot falsify is decided: a firing received before its due time is early; more than n firings is too
// often; a firing received later than 150 ms after cancel() returned (several intervals) fired after
// cancellation. Fewer firings than expected within the generous wait is inconclusive, never a verdict.
func c13Host(c *c13Case, v *fw.V) {
	kind, val, _ := strings.Cut(c.HostDef, ":")
	def := schema.DefaultTimerEventDefinition()
	ex := schema.AnExpression{}
	if err := xml.NewDecoder(bytes.NewBufferString(fmt.Sprintf(`<bpmn:expression>%s</bpmn:expression>`, val))).Decode(&ex); err != nil {
		v.Inconclusive("parse", "%v", err)
		return
	}
	n := 1
	var interval time.Duration
	switch kind {
	case "duration":
		def.SetTimeDuration(&ex)
		fmt.Sscanf(val, "PT%fS", new(float64))
	default:
		def.SetTimeCycle(&ex)
		fmt.Sscanf(val, "R%d/", &n)
	}
	var secs float64
	if i := strings.LastIndex(val, "PT"); i >= 0 {
		fmt.Sscanf(val[i:], "PT%fS", &secs)
	}
	interval = time.Duration(secs * float64(time.Second))
	if interval <= 0 {
		v.Inconclusive("parse", "no interval in %q", val)
		return
	}
	ctx, cancel := context.WithCancel(context.Background())
	defer cancel()
	hc, err := clock.Host(ctx)
	if err != nil {
		v.Inconclusive("host-clock", "%v", err)
		return
	}
	created := time.Now()
	ch, err := timer.New(ctx, hc, def)
	if err != nil {
		v.Inconclusive("timer-new", "timer.New(%s): %v", c.HostDef, err)
		return
	}
	cls := "host-" + kind
	var cancelledAt time.Time
	if c.HostCancel == 0 {
		cancel()
		cancelledAt = time.Now()
	}
	fired := 0
	deadline := time.After(time.Duration(n)*interval + 1500*time.Millisecond)
loop:
	for {
		select {
		case _, ok := <-ch:
			if !ok {
				break loop
			}
			now := time.Now()
			fired++
			due := created.Add(time.Duration(fired) * interval)
			if now.Before(due) {
				v.Violate("fired-early", cls, "%s on the host clock: firing %d received %v after creation, due after %v", c.HostDef, fired, now.Sub(created), due.Sub(created))
				return
			}
			if fired > n {
				v.Violate("fired-too-often", cls, "%s on the host clock fired %d times", c.HostDef, fired)
				return
			}
			if !cancelledAt.IsZero() && now.Sub(cancelledAt) > 150*time.Millisecond {
				v.Violate("fired-after-cancel", cls, "%s on the host clock: a firing was received %v after cancel() had returned", c.HostDef, now.Sub(cancelledAt))
				return
			}
			if c.HostCancel == fired {
				cancel()
				cancelledAt = time.Now()
			}
		case <-deadline:
			break loop
		}
	}
	v.Add("host-firings", fired)
	want := n
	if c.HostCancel >= 0 && c.HostCancel < n {
		want = c.HostCancel
	}
	if fired < want {
		v.Inconclusive("host-slow", "%s fired %d of %d times within the wait", c.HostDef, fired, want)
	}
	v.Add("histories", 1)
}

func init() {
	fw.Register(&fw.Prop{
		ID:    "C13",
		Cases: c13Cases,
		Run: func(c fw.Case, env *fw.Env) *fw.V {
			v := fw.NewV(c)
			var cc c13Case
			if err := json.Unmarshal(c.Desc, &cc); err != nil {
				v.Inconclusive("descriptor", "%v", err)
				return v
			}
			if cc.Level == "host" {
				c13Host(&cc, v)
			} else if cc.Level == "timer" {
				c13Timer(&cc, env, v)
			} else if cc.Level == "pair" {
				c13Pair(&cc, env, v)
			} else {
				c13Process(&cc, env, v)
			}
			v.Nontrivial = v.Stats["histories"] > 0
			return v
		},
		Rule:        "timer.New driven directly over an instrumented mock clock: definitions {date, duration, cycle R0/R1/R2/R3/unbounded, explicit start, end bound, start/end form} x ALL sequences of up to 4 (quick) / 6 (thorough) clock moves from the grid {due-1ns, exactly due, due+1ns, +half interval, +10 intervals, -1 interval (backwards)} resolved against the reference's next due time x cancellation after each prefix (quick: every point; thorough: one PRNG point per history); quiescence after every move; rules: never early / >= one interval apart (each firing's clock reading >= previous + interval), never more than n, never at/after end, none after cancel, and exact count at every step for monotone histories; host level: a duration and a cycle definition with one-second intervals on the real host clock (safety rules only); process level: start -> timer catch -> task with up to 3 moves; pair level: two instances of one definitions value on one event bus and one clock, the second created 2.5 intervals after the first, up to 3 moves from {either instance's due time - 1ns / exactly, +half}: each instance continues for its own timer only; a case = one shard of the enumeration; 'measured.histories' = histories executed",
		Exhaustive:  func(string) bool { return true },
		Assumptions: []string{"the deciding histories use the mock clock; on the host clock (real time) only the safety rules a loaded machine cannot falsify are applied (never early, never more than n, none later than 150 ms after cancellation); fewer firings than expected is inconclusive"},
		Batch:       3,
		WatchdogSec: 600,
	})
}
