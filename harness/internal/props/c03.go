package props

import (
	"fmt"

	"verif/internal/fw"
	"verif/internal/gen"
	"verif/internal/refsem"
	"verif/internal/step"
)

// c03Graph: start -> xm -> fork(1,N) -> u1..uN -> G(N,M) -> d1..dM -> J(M,1) -> tl -> xs -(cnt<k)-> xm | default -> end
func c03Graph(n, m, k int) *gen.Graph {
	g := gen.NewGraph("c03")
	s := g.Add(gen.Start, "start", "")
	xm := g.Add(gen.Xor, "xm", "")
	fork := g.Add(gen.And, "fork", "")
	gw := g.Add(gen.And, "G", "")
	join := g.Add(gen.And, "J", "")
	tl := g.Add(gen.Task, "tl", "")
	tl.Writes = []string{"cnt"}
	xs := g.Add(gen.Xor, "xs", "")
	end := g.Add(gen.End, "end", "")
	g.Connect(s, xm, nil)
	g.Connect(xm, fork, nil)
	for i := 1; i <= n; i++ {
		u := g.Add(gen.Task, fmt.Sprintf("u%d", i), "")
		g.Connect(fork, u, nil)
		g.Connect(u, gw, nil)
	}
	for j := 1; j <= m; j++ {
		d := g.Add(gen.Task, fmt.Sprintf("d%d", j), "")
		g.Connect(gw, d, nil)
		g.Connect(d, join, nil)
	}
	g.Connect(join, tl, nil)
	g.Connect(tl, xs, nil)
	g.Connect(xs, xm, &gen.Cond{Kind: "var", Var: "cnt", Op: "<", Val: int64(k)})
	def := g.Connect(xs, end, nil)
	xs.Default = def.ID
	return g
}

// c03Pipe: two producers deliver two tokens each on their own incoming flow of G, at moments the answer order
// chooses: start -> fork -> {fA -> a1,a2 -> mA -> G ; fB -> b1,b2 -> mB -> G}; G(2,M) -> d1..dM -> J(M,1) -> tl -> end.
// G must not release while one of its incoming flows has no token, however many arrived on the other.
func c03Pipe(m int) *gen.Graph { return c03PipeN(m, 2) }

// c03PipeN: per tokens per producer
func c03PipeN(m, per int) *gen.Graph {
	g := gen.NewGraph("c03p")
	s := g.Add(gen.Start, "start", "")
	fork := g.Add(gen.And, "fork", "")
	gw := g.Add(gen.And, "G", "")
	g.Connect(s, fork, nil)
	for _, x := range []string{"a", "b"} {
		f := g.Add(gen.And, "f"+x, "")
		mg := g.Add(gen.Xor, "m"+x, "")
		g.Connect(fork, f, nil)
		for i := 1; i <= per; i++ {
			t := g.Add(gen.Task, fmt.Sprintf("%s%d", x, i), "")
			g.Connect(f, t, nil)
			g.Connect(t, mg, nil)
		}
		g.Connect(mg, gw, nil)
	}
	join := g.Add(gen.And, "J", "")
	for j := 1; j <= m; j++ {
		d := g.Add(gen.Task, fmt.Sprintf("d%d", j), "")
		g.Connect(gw, d, nil)
		g.Connect(d, join, nil)
	}
	tl := g.Add(gen.Task, "tl", "")
	end := g.Add(gen.End, "end", "")
	g.Connect(join, tl, nil)
	g.Connect(tl, end, nil)
	return g
}

// c03Burst: K tokens (a fork with K flows into ONE task) reach a parallel gateway with a single incoming flow
// together: every token is a complete set of its own, so the gateway releases K times whatever is queued in its
// inbox when it looks (start -> fork -> mid x K -> pg (1 -> m) -> d1..dm -> end).
func c03Burst(k, m int) *gen.Graph {
	g := gen.NewGraph("c03b")
	s := g.Add(gen.Start, "start", "")
	f := g.Add(gen.And, "fork", "")
	mid := g.Add(gen.Task, "mid", "")
	pg := g.Add(gen.And, "pg", "")
	g.Connect(s, f, nil)
	for i := 0; i < k; i++ {
		g.Connect(f, mid, nil)
	}
	g.Connect(mid, pg, nil)
	for j := 1; j <= m; j++ {
		d := g.Add(gen.Task, fmt.Sprintf("d%d", j), "")
		e := g.Add(gen.End, fmt.Sprintf("e%d", j), "")
		g.Connect(pg, d, nil)
		g.Connect(d, e, nil)
	}
	return g
}

// c03Direct: one of the fork's outgoing flows leads straight to the join (a branch without any node), listed at
// position po among the fork's outgoing flows and pi among the join's incoming ones; the other two branches hold
// a task each (start -> fork -> {u1, -, u2} -> join -> d1 -> end).
func c03Direct(po, pi int) *gen.Graph {
	g := gen.NewGraph("c03d")
	s := g.Add(gen.Start, "start", "")
	f := g.Add(gen.And, "fork", "")
	j := g.Add(gen.And, "join", "")
	u1, u2 := g.Add(gen.Task, "u1", ""), g.Add(gen.Task, "u2", "")
	d := g.Add(gen.Task, "d1", "")
	e := g.Add(gen.End, "end", "")
	g.Connect(s, f, nil)
	a := g.Connect(f, u1, nil)
	b := g.Connect(f, u2, nil)
	x := g.Connect(f, j, nil)
	a2 := g.Connect(u1, j, nil)
	b2 := g.Connect(u2, j, nil)
	g.Connect(j, d, nil)
	g.Connect(d, e, nil)
	place := func(direct string, others []string, pos int) []string {
		out := append([]string(nil), others...)
		out = append(out[:pos], append([]string{direct}, out[pos:]...)...)
		return out
	}
	f.Out = place(x.ID, []string{a.ID, b.ID}, po)
	j.In = place(x.ID, []string{a2.ID, b2.ID}, pi)
	return g
}

func c03Cases(tier string, seed uint64) []fw.Case {
	var cs []fw.Case
	// pipelined arrivals: every order in which the four producer tasks finish, downstream tasks answered as they appear
	ups := []string{"a1", "a2", "b1", "b2"}
	for m := 1; m <= 3; m++ {
		g := c03Pipe(m)
		for _, perm := range fw.Permutations(4) {
			ref := refsem.New(g, nil, nil)
			ref.StartAll()
			var order []string
			for _, pi := range perm {
				order = append(order, ups[pi])
				ref.Answer(ups[pi], nil)
				for guard := 0; guard < 20; guard++ {
					next := ""
					for _, t := range ref.PendingList() {
						if t[0] == 'd' || t == "tl" {
							next = t
							break
						}
					}
					if next == "" {
						break
					}
					order = append(order, next)
					ref.Answer(next, nil)
				}
			}
			sc := step.Case{Name: fmt.Sprintf("pipe-M%d-%v", m, perm), G: g, Order: order, Family: "pipelined"}
			cs = append(cs, fw.MkCase("stepwise", &sc))
		}
		reps := 3
		if tier == "thorough" {
			reps = 30
		}
		sc := step.Case{Name: fmt.Sprintf("storm-pipe-M%d", m), G: g, Storm: true, Hooks: 0.3, Reps: reps, Family: "pipelined"}
		cs = append(cs, fw.MkCase("storm", &sc))
	}
	// three tokens per incoming flow (queues of parked tokens longer than two)
	ups3 := []string{"a1", "a2", "a3", "b1", "b2", "b3"}
	for m := 1; m <= 2; m++ {
		g := c03PipeN(m, 3)
		perms := fw.Permutations(6)
		for pi, perm := range perms {
			if m == 2 && pi%6 != 0 {
				continue
			}
			if tier != "thorough" && pi%3 != int(seed%3) && m == 1 {
				continue
			}
			ref := refsem.New(g, nil, nil)
			ref.StartAll()
			var order []string
			for _, pi := range perm {
				order = append(order, ups3[pi])
				ref.Answer(ups3[pi], nil)
				for guard := 0; guard < 20; guard++ {
					next := ""
					for _, t := range ref.PendingList() {
						if t[0] == 'd' || t == "tl" {
							next = t
							break
						}
					}
					if next == "" {
						break
					}
					order = append(order, next)
					ref.Answer(next, nil)
				}
			}
			sc := step.Case{Name: fmt.Sprintf("pipe3-M%d-%v", m, perm), G: g, Order: order, Family: "pipelined"}
			cs = append(cs, fw.MkCase("stepwise", &sc))
		}
	}
	// eight tokens per incoming flow: all of one producer's tokens queue up on their flow before the other
	// producer delivers its first one (queues far longer than the gateway has incoming flows), in both directions,
	// and in PRNG-chosen interleavings
	{
		var as, bs []string
		for i := 1; i <= 8; i++ {
			as = append(as, fmt.Sprintf("a%d", i))
			bs = append(bs, fmt.Sprintf("b%d", i))
		}
		seqs := [][]string{append(append([]string(nil), as...), bs...), append(append([]string(nil), bs...), as...)}
		rng := fw.NewRng(seed, "c03-deep")
		nshuf := 4
		if tier == "thorough" {
			nshuf = 60
		}
		for i := 0; i < nshuf; i++ {
			// a long run of one producer, then a shuffle of the rest
			head := 5 + rng.Intn(4)
			first, second := as, bs
			if rng.Bool() {
				first, second = bs, as
			}
			seq := append([]string(nil), first[:head]...)
			rest := append(append([]string(nil), first[head:]...), second...)
			rng.Shuffle(len(rest), func(x, y int) { rest[x], rest[y] = rest[y], rest[x] })
			seqs = append(seqs, append(seq, rest...))
		}
		for m := 1; m <= 2; m++ {
			g := c03PipeN(m, 8)
			for si, seq := range seqs {
				ref := refsem.New(g, nil, nil)
				ref.StartAll()
				var order []string
				for _, u := range seq {
					order = append(order, u)
					ref.Answer(u, nil)
					for guard := 0; guard < 40; guard++ {
						next := ""
						for _, t := range ref.PendingList() {
							if t[0] == 'd' || t == "tl" {
								next = t
								break
							}
						}
						if next == "" {
							break
						}
						order = append(order, next)
						ref.Answer(next, nil)
					}
				}
				sc := step.Case{Name: fmt.Sprintf("pipe8-M%d-%d-%v", m, si, seq), G: g, Order: order, Family: "deep"}
				cs = append(cs, fw.MkCase("stepwise", &sc))
			}
		}
	}
	// a branch without any node, at every position among the fork's outgoing and the join's incoming flows
	for po := 0; po < 3; po++ {
		for pi := 0; pi < 3; pi++ {
			for _, order := range [][]string{{"u1", "u2", "d1"}, {"u2", "u1", "d1"}} {
				sc := step.Case{Name: fmt.Sprintf("direct-out%d-in%d-%v", po, pi, order), G: c03Direct(po, pi), Order: order, Family: "direct"}
				cs = append(cs, fw.MkCase("stepwise", &sc))
			}
		}
	}
	// bursts: several complete sets in the gateway's inbox at once
	for _, k := range []int{3, 6} {
		for m := 1; m <= 2; m++ {
			reps := 6
			if tier == "thorough" {
				reps = 60
			}
			for _, hooks := range []float64{0, 0.3} {
				sc := step.Case{Name: fmt.Sprintf("burst-K%d-M%d-h%v", k, m, hooks), G: c03Burst(k, m), Storm: true, Hooks: hooks, Reps: reps, Family: "burst"}
				cs = append(cs, fw.MkCase("storm", &sc))
			}
		}
	}
	for n := 1; n <= 4; n++ {
		for m := 1; m <= 4; m++ {
			for k := 1; k <= 3; k++ {
				for _, perm := range fw.Permutations(n) {
					var order []string
					for round := 0; round < k; round++ {
						for _, p := range perm {
							order = append(order, fmt.Sprintf("u%d", p+1))
						}
						for j := 1; j <= m; j++ {
							order = append(order, fmt.Sprintf("d%d", j))
						}
						order = append(order, "tl")
					}
					sc := step.Case{Name: fmt.Sprintf("N%d-M%d-k%d", n, m, k), G: c03Graph(n, m, k), Order: order}
					cs = append(cs, fw.MkCase("stepwise", &sc))
				}
				reps := 2
				if tier == "thorough" {
					reps = 30
				}
				sc := step.Case{Name: fmt.Sprintf("storm-N%d-M%d-k%d", n, m, k), G: c03Graph(n, m, k), Storm: true, Hooks: 0.3, Reps: reps}
				cs = append(cs, fw.MkCase("storm", &sc))
			}
		}
	}
	return fw.Number(cs)
}

func init() {
	fw.Register(&fw.Prop{
		ID:    "C03",
		Cases: c03Cases,
		Run: func(c fw.Case, env *fw.Env) *fw.V {
			return runStep("C03", c, env, conservation)
		},
		Rule: "enumerated: all N,M in 1..4 x all N! finishing orders of the upstream tasks x k in 1..3 activations (396 stepwise cases, engine compared with the reference token game at every quiescent step) + pipelined arrivals (two producers delivering two tokens each on their own incoming flow of a 2 x M gateway, all 24 finishing orders, and three tokens each with 240 / 720 + 120 of the 720 orders: the gateway must not release while one incoming flow is empty, however many tokens arrived on the other, and no parked token may be lost) + storm runs with concurrent answers per shape; non-trivial = gateway present and >=2 requests pending at once or a condition routed (all cases with N>1 or M>1, plus loops); distinct = distinct descriptor hash; deep family: eight tokens per incoming flow of a two-way join, one producer first (both directions) and PRNG interleavings",
		Exhaustive: func(string) bool { return true },
		Assumptions: []string{"reference token game (internal/refsem) is the oracle for observed requests", "quiescence = all labelled goroutines blocked in one stop-the-world snapshot, twice in a row"},
	})
}
