package props

import (
	"encoding/json"
	"fmt"
	"reflect"
	"strings"

	bpmn "github.com/olive-io/bpmn/v2"
	"github.com/olive-io/bpmn/v2/pkg/event"

	"context"
	"sync"
	"time"

	"github.com/olive-io/bpmn/schema"
	"github.com/olive-io/bpmn/v2/model"

	"verif/internal/drive"
	"verif/internal/fw"
	"verif/internal/gen"
	"verif/internal/perturb"
	"verif/internal/quiesce"
	"verif/internal/refsem"
	"verif/internal/step"

	"github.com/olive-io/bpmn/v2/pkg/tracing"
)

type c11Case struct {
	Name  string   `json:"name"`
	Shape string   `json:"shape"` // seq | par | behind | never | twin | shared | merge
	Kind  string   `json:"kind"`  // signal | message | messageop
	Hist  []string `json:"hist"`  // "e:<ref>" deliver event, "a:<task>" answer task (skipped if not pending), "b:<ref>" burst: 12 non-matching events and then <ref>, back to back from one goroutine, "m:<ref>" burst of 6 x <ref>
	Hooks bool     `json:"hooks"`
	// PM: a (parallel-)multiple catch event reached by two tokens one after the other, with events also arriving
	// while no token waits (C14's two-activation workload): PMDefs definitions, PMHist events (-1 = second token)
	PMKind string `json:"pm_kind,omitempty"`
	PMDefs int    `json:"pm_defs,omitempty"`
	PMHist []int  `json:"pm_hist,omitempty"`
	// model: MProcs processes (start -> catch r<i> -> end) of one definitions value run inside a model.Model, which
	// hands every event it is given to each of them; Hist is the sequence of refs delivered to the model (a process
	// completes when its own event arrives; "zz" matches nobody)
	MProcs int `json:"mprocs,omitempty"`
}

func c11Def(kind, ref string) gen.EventDef {
	switch kind {
	case "message":
		return gen.EventDef{Type: "message", Ref: ref}
	case "messageop":
		return gen.EventDef{Type: "message", Ref: ref, Op: "op1"}
	}
	return gen.EventDef{Type: "signal", Ref: ref}
}

func c11Event(kind, ref string) event.IEvent {
	switch kind {
	case "message":
		return event.NewMessageEvent(ref, nil)
	case "messageop":
		op := "op1"
		return event.NewMessageEvent(ref, &op)
	}
	return event.NewSignalEvent(ref)
}

// returns graph and the refs of its catch events (catch id -> ref)
func c11Graph(c *c11Case) (*gen.Graph, map[string]string) {
	g := gen.NewGraph("c11")
	refs := map[string]string{}
	catch := func(id, ref string) *gen.Node {
		n := g.Add(gen.Catch, id, "")
		n.Events = []gen.EventDef{c11Def(c.Kind, ref)}
		refs[id] = ref
		return n
	}
	s := g.Add(gen.Start, "start", "")
	switch c.Shape {
	case "seq":
		c1, t1, c2, t2, e := catch("c1", "r1"), g.Add(gen.Task, "t1", ""), catch("c2", "r2"), g.Add(gen.Task, "t2", ""), g.Add(gen.End, "end", "")
		g.Connect(s, c1, nil)
		g.Connect(c1, t1, nil)
		g.Connect(t1, c2, nil)
		g.Connect(c2, t2, nil)
		g.Connect(t2, e, nil)
	case "par", "twin":
		f := g.Add(gen.And, "fork", "")
		j := g.Add(gen.And, "join", "")
		e := g.Add(gen.End, "end", "")
		g.Connect(s, f, nil)
		n := 2
		if c.Shape == "twin" {
			n = 3
		}
		for i := 1; i <= n; i++ {
			ref := fmt.Sprintf("r%d", i)
			if c.Shape == "twin" && i == 3 {
				ref = "r1" // two listeners for the same event
			}
			ci := catch(fmt.Sprintf("c%d", i), ref)
			ti := g.Add(gen.Task, fmt.Sprintf("t%d", i), "")
			g.Connect(f, ci, nil)
			g.Connect(ci, ti, nil)
			g.Connect(ti, j, nil)
		}
		g.Connect(j, e, nil)
	case "behind":
		t0, c1, t1, e := g.Add(gen.Task, "t0", ""), catch("c1", "r1"), g.Add(gen.Task, "t1", ""), g.Add(gen.End, "end", "")
		g.Connect(s, t0, nil)
		g.Connect(t0, c1, nil)
		g.Connect(c1, t1, nil)
		g.Connect(t1, e, nil)
	case "shared":
		// two tokens wait at one catch event at the same time
		t0, f, c1, t1, e := g.Add(gen.Task, "t0", ""), g.Add(gen.And, "fork", ""), catch("c1", "r1"), g.Add(gen.Task, "t1", ""), g.Add(gen.End, "end", "")
		g.Connect(s, t0, nil)
		g.Connect(t0, f, nil)
		g.Connect(f, c1, nil)
		g.Connect(f, c1, nil)
		g.Connect(c1, t1, nil)
		g.Connect(t1, e, nil)
	case "merge":
		// two tokens reach one catch event at moments the history chooses: together, or the second after the first was released
		f, t0, t2, xm, c1, t1, e := g.Add(gen.And, "fork", ""), g.Add(gen.Task, "t0", ""), g.Add(gen.Task, "t2", ""), g.Add(gen.Xor, "xm", ""), catch("c1", "r1"), g.Add(gen.Task, "t1", ""), g.Add(gen.End, "end", "")
		g.Connect(s, f, nil)
		g.Connect(f, t0, nil)
		g.Connect(f, t2, nil)
		g.Connect(t0, xm, nil)
		g.Connect(t2, xm, nil)
		g.Connect(xm, c1, nil)
		g.Connect(c1, t1, nil)
		g.Connect(t1, e, nil)
	case "insub", "insub2", "insub3":
		// the catch event sits inside an embedded sub-process (insub2 / insub3: nested two / three levels deep)
		depth := 1
		if c.Shape == "insub2" {
			depth = 2
		} else if c.Shape == "insub3" {
			depth = 3
		}
		t0 := g.Add(gen.Task, "t0", "")
		t2, e := g.Add(gen.Task, "t2", ""), g.Add(gen.End, "end", "")
		g.Connect(s, t0, nil)
		scope := ""
		var outer *gen.Node
		for l := 1; l < depth; l++ {
			// wrapper levels: start -> next level -> end
			w := g.Add(gen.Sub, fmt.Sprintf("O%d", l), scope)
			if outer == nil {
				g.Connect(t0, w, nil)
				g.Connect(w, t2, nil)
			}
			ws := g.Add(gen.Start, fmt.Sprintf("os%d", l), w.ID)
			we := g.Add(gen.End, fmt.Sprintf("oe%d", l), w.ID)
			if outer != nil {
				// the previous wrapper's start leads to this wrapper, which leads to the previous wrapper's end
				g.Connect(g.Node(fmt.Sprintf("os%d", l-1)), w, nil)
				g.Connect(w, g.Node(fmt.Sprintf("oe%d", l-1)), nil)
			}
			outer = w
			scope = w.ID
			_ = ws
			_ = we
		}
		sp := g.Add(gen.Sub, "S", scope)
		if outer == nil {
			g.Connect(t0, sp, nil)
			g.Connect(sp, t2, nil)
		} else {
			g.Connect(g.Node(fmt.Sprintf("os%d", depth-1)), sp, nil)
			g.Connect(sp, g.Node(fmt.Sprintf("oe%d", depth-1)), nil)
		}
		is := g.Add(gen.Start, "is", "S")
		n := g.Add(gen.Catch, "c1", "S")
		n.Events = []gen.EventDef{c11Def(c.Kind, "r1")}
		refs["c1"] = "r1"
		t1 := g.Add(gen.Task, "t1", "S")
		ie := g.Add(gen.End, "ie", "S")
		g.Connect(is, n, nil)
		g.Connect(n, t1, nil)
		g.Connect(t1, ie, nil)
		g.Connect(t2, e, nil)
	case "never":
		x := g.Add(gen.Xor, "x", "")
		cn, tn := catch("cn", "r2"), g.Add(gen.Task, "tn", "")
		c1, t1 := catch("c1", "r1"), g.Add(gen.Task, "t1", "")
		xm := g.Add(gen.Xor, "xm", "")
		e := g.Add(gen.End, "end", "")
		g.Connect(s, x, nil)
		g.Connect(x, cn, &gen.Cond{Kind: "const", Lit: false})
		d := g.Connect(x, c1, nil)
		x.Default = d.ID
		g.Connect(cn, tn, nil)
		g.Connect(c1, t1, nil)
		g.Connect(tn, xm, nil)
		g.Connect(t1, xm, nil)
		g.Connect(xm, e, nil)
	}
	return g, refs
}

// "x:<ref>" delivers an event with the listener's name but the wrong flavour:
// a message carrying an operation to a definition without one, a message
// without / with another operation to a definition with one, a message to a
// signal definition (and vice versa). It matches nothing.
func c11Alphabet(shape string) []string {
	switch shape {
	case "seq":
		return []string{"e:r1", "e:r2", "e:zz", "x:r1", "a:t1", "a:t2"}
	case "par":
		return []string{"e:r1", "e:r2", "e:zz", "x:r2", "a:t1", "a:t2"}
	case "twin":
		return []string{"e:r1", "e:r2", "e:zz", "x:r1", "a:t1", "a:t3"}
	case "behind":
		return []string{"e:r1", "e:zz", "x:r1", "a:t0", "a:t1"}
	case "never":
		return []string{"e:r1", "e:r2", "e:zz", "x:r1", "a:t1"}
	case "shared":
		return []string{"e:r1", "e:zz", "x:r1", "a:t0", "a:t1"}
	case "merge":
		return []string{"e:r1", "e:zz", "a:t0", "a:t2", "a:t1"}
	case "insub", "insub2", "insub3":
		return []string{"e:r1", "e:zz", "x:r1", "a:t0", "a:t1"}
	}
	return nil
}

func c11Cross(kind, ref string) []event.IEvent {
	op1, op2 := "op1", "op2"
	switch kind {
	case "message":
		return []event.IEvent{event.NewMessageEvent(ref, &op1), event.NewSignalEvent(ref)}
	case "messageop":
		return []event.IEvent{event.NewMessageEvent(ref, nil), event.NewMessageEvent(ref, &op2), event.NewSignalEvent(ref)}
	}
	return []event.IEvent{event.NewMessageEvent(ref, nil), event.NewMessageEvent(ref, &op1)}
}

type c11Recorder struct {
	mu   sync.Mutex
	seen []event.IEvent
}

func (r *c11Recorder) ConsumeEvent(ev event.IEvent) (event.ConsumptionResult, error) {
	r.mu.Lock()
	r.seen = append(r.seen, ev)
	r.mu.Unlock()
	return event.Consumed, nil
}

// count returns how often ev has been handed to the recorder so far
func (r *c11Recorder) count(ev event.IEvent) int {
	r.mu.Lock()
	defer r.mu.Unlock()
	n := 0
	for _, x := range r.seen {
		if x == ev {
			n++
		}
	}
	return n
}

// c11Model: see c11Case.MProcs. Every process that has not completed is handed each event given to the model
// exactly once (observed by a consumer registered with the process, which is called synchronously); a process
// that has completed is handed it at most once; a process completes when - and only when - its own event arrives.
func c11Model(c *c11Case, v *fw.V) {
	var gs []*gen.Graph
	for i := 1; i <= c.MProcs; i++ {
		g := gen.NewGraph(fmt.Sprintf("P%d", i))
		s := g.Add(gen.Start, fmt.Sprintf("s%d", i), "")
		n := g.Add(gen.Catch, fmt.Sprintf("c%d", i), "")
		n.Events = []gen.EventDef{c11Def(c.Kind, fmt.Sprintf("r%d", i))}
		e := g.Add(gen.End, fmt.Sprintf("e%d", i), "")
		g.Connect(s, n, nil)
		g.Connect(n, e, nil)
		gs = append(gs, g)
	}
	defs, err := schema.Parse([]byte(gen.XML(gs, nil, "")))
	if err != nil {
		v.Inconclusive("parse", "%v", err)
		return
	}
	perturb.Off()
	cls := fmt.Sprintf("model-procs=%d", c.MProcs)
	ctx, cancel := context.WithCancel(context.Background())
	defer cancel()
	mtr := tracing.NewTracer(ctx)
	m, err := model.New(defs, model.WithContext(ctx), model.WithTracer(mtr))
	if err != nil {
		v.Violate("model-new-error", cls, "%v", err)
		return
	}
	procs := make([]*bpmn.Process, c.MProcs)
	recs := make([]*c11Recorder, c.MProcs)
	listening := make([]chan struct{}, c.MProcs)
	for i := range procs {
		pid := fmt.Sprintf("P%d", i+1)
		p, found := m.FindProcessBy(func(p *bpmn.Process) bool { id, ok := p.Element().Id(); return ok && *id == pid })
		if !found {
			v.Inconclusive("setup", "process %s not found in the model", pid)
			return
		}
		procs[i] = p
		recs[i] = &c11Recorder{}
		p.RegisterEventConsumer(recs[i])
	}
	// start them and wait until each catch event listens (its ActiveListeningTrace)
	sub := mtr.SubscribeChannel(make(chan tracing.ITrace, 4096))
	for i := range procs {
		listening[i] = make(chan struct{})
	}
	go func() {
		for tr := range sub {
			if e := drive.Classify(tr); e.Kind == "Listening" {
				for i := range listening {
					if e.Node == fmt.Sprintf("c%d", i+1) {
						close(listening[i])
					}
				}
			}
		}
	}()
	for i, p := range procs {
		if err := p.StartAll(ctx); err != nil {
			v.Violate("start-error", cls, "%v", err)
			return
		}
		select {
		case <-listening[i]:
		case <-time.After(step.Watchdog):
			v.Inconclusive("watchdog", "catch event of process %d never listened", i+1)
			return
		}
	}
	complete := make([]bool, c.MProcs)
	for step_, ref := range c.Hist {
		ev := c11Event(c.Kind, ref)
		done := make(chan error, 1)
		go func() { _, err := m.ConsumeEvent(ev); done <- err }()
		select {
		case err := <-done:
			if err != nil {
				v.Violate("model-consume-error", cls, "history %v step %d: %v", c.Hist, step_, err)
				return
			}
		case <-time.After(step.Watchdog):
			v.Violate("consume-blocked", cls, "history %v step %d: Model.ConsumeEvent did not return", c.Hist, step_)
			return
		}
		v.Add("events-delivered", 1)
		for i := range recs {
			// (the engine hands events of its own to the model as well, e.g. when a process reaches its end
			// event: only the copies of the delivered event count)
			got := recs[i].count(ev)
			if !complete[i] && got != 1 {
				v.Violate("model-delivery-count", cls, "history %v step %d (%s): process %d (still running) was handed the event %d times, expected exactly once", c.Hist, step_, ref, i+1, got)
				return
			}
			if complete[i] && got > 1 {
				v.Violate("model-delivery-count", cls, "history %v step %d (%s): process %d (completed) was handed the event %d times", c.Hist, step_, ref, i+1, got)
				return
			}
		}
		// the process whose event this is completes now; the others must not
		for i, p := range procs {
			if ref == fmt.Sprintf("r%d", i+1) && !complete[i] {
				wctx, wcancel := context.WithTimeout(ctx, step.Watchdog)
				ok := p.WaitUntilComplete(wctx)
				wcancel()
				if !ok {
					v.Violate("listener-missed", cls, "history %v step %d: process %d did not complete after its event %s was handed to the model", c.Hist, step_, i+1, ref)
					return
				}
				complete[i] = true
			}
		}
	}
	// processes whose event never came are still listening: not complete
	for i, p := range procs {
		if complete[i] {
			continue
		}
		wctx, wcancel := context.WithTimeout(ctx, 20*time.Millisecond)
		ok := p.WaitUntilComplete(wctx)
		wcancel()
		if ok {
			v.Violate("listener-spurious", cls, "history %v: process %d completed although its event was never delivered", c.Hist, i+1)
			return
		}
	}
}

func c11Cases(tier string, seed uint64) []fw.Case {
	rng := fw.NewRng(seed, "C11")
	var cs []fw.Case
	kinds3 := []string{"signal", "message", "messageop"}
	// an instance that has completed is started again: its catch events listen again and events reach them
	for ki, kind := range kinds3 {
		for _, sh := range []struct {
			shape string
			hist  []string
		}{
			{"seq", []string{"e:r1", "a:t1", "e:r2", "a:t2", "s:", "e:r1", "a:t1", "e:r2"}},
			{"seq", []string{"e:r1", "a:t1", "e:r2", "a:t2", "s:", "e:r2", "e:r1", "e:r1"}},
			{"behind", []string{"a:t0", "e:r1", "a:t1", "s:", "e:r1", "a:t0", "e:r1"}},
			{"insub", []string{"a:t0", "e:r1", "a:t1", "a:t2", "s:", "a:t0", "e:r1", "a:t1"}},
			{"par", []string{"e:r1", "e:r2", "a:t1", "a:t2", "s:", "e:r2", "a:t2", "e:r1"}},
		} {
			c := c11Case{Shape: sh.shape, Kind: kind, Hist: sh.hist, Hooks: ki == 1}
			c.Name = fmt.Sprintf("restart/%s/%s/%s", sh.shape, kind, strings.Join(sh.hist, ","))
			cs = append(cs, fw.MkCase("restart", &c))
		}
	}
	// several processes of one definitions value inside a model.Model: all histories up to length 4 / 5
	mlen := 4
	if tier == "thorough" {
		mlen = 5
	}
	for np := 2; np <= 3; np++ {
		alpha := []string{"zz"}
		for i := 1; i <= np; i++ {
			alpha = append(alpha, fmt.Sprintf("r%d", i))
		}
		hi := 0
		var mrec func(p []string)
		mrec = func(p []string) {
			if len(p) > 0 {
				hi++
				c := c11Case{Shape: "model", Kind: []string{"signal", "message", "messageop"}[hi%3], MProcs: np, Hist: append([]string(nil), p...)}
				c.Name = fmt.Sprintf("model/p%d/%s", np, strings.Join(p, ","))
				cs = append(cs, fw.MkCase("model", &c))
			}
			if len(p) == mlen {
				return
			}
			for _, a := range alpha {
				mrec(append(p, a))
			}
		}
		mrec(nil)
	}
	kinds := []string{"signal", "message", "messageop"}
	for si, shape := range []string{"seq", "par", "twin", "behind", "never", "shared", "merge", "insub", "insub2", "insub3"} {
		alpha := c11Alphabet(shape)
		// all histories up to length 4 over the events (answers are interleaved by PRNG below)
		var hs [][]string
		var rec func(p []string)
		rec = func(p []string) {
			hs = append(hs, append([]string(nil), p...))
			if len(p) == 4 {
				return
			}
			for _, a := range alpha {
				rec(append(p, a))
			}
		}
		rec(nil)
		for hi, h := range hs {
			kind := kinds[(hi+si)%3]
			if tier != "thorough" && len(h) == 4 && hi%4 != 0 {
				continue
			}
			c := c11Case{Shape: shape, Kind: kind, Hist: h, Hooks: hi%5 == 0}
			c.Name = fmt.Sprintf("%s/%s/%s", shape, kind, strings.Join(h, ","))
			cs = append(cs, fw.MkCase("enumerated", &c))
		}
		// bursts: events handed over back to back (each ConsumeEvent has returned before the next is
		// issued, so every one of them is delivered while the listener is listening) without waiting
		// for the instance to settle in between: more events than a node's inbox holds
		var refsOf []string
		for _, a := range alpha {
			if strings.HasPrefix(a, "e:r") {
				refsOf = append(refsOf, a[2:])
			}
		}
		bi := 0
		for _, h := range hs {
			if len(h) > 2 {
				continue
			}
			for _, ref := range refsOf {
				for _, b := range []string{"b:", "m:"} {
					bi++
					if tier != "thorough" && len(h) == 2 && bi%3 != 0 {
						continue
					}
					hh := append(append([]string(nil), h...), b+ref)
					c := c11Case{Shape: shape, Kind: kinds[(bi+si)%3], Hist: hh, Hooks: bi%2 == 0}
					c.Name = fmt.Sprintf("%s/%s/burst:%s", shape, c.Kind, strings.Join(hh, ","))
					cs = append(cs, fw.MkCase("burst", &c))
				}
			}
		}
		// PRNG histories up to length 8 (event-heavy: delivery must never block)
		n := 40
		if tier == "thorough" {
			n = 400
		}
		for i := 0; i < n; i++ {
			l := 5 + rng.Intn(4)
			var h []string
			for j := 0; j < l; j++ {
				a := alpha[rng.Intn(len(alpha))]
				if rng.Intn(3) == 0 {
					a = alpha[rng.Intn(4)%len(alpha)] // bias towards events
				}
				h = append(h, a)
			}
			c := c11Case{Shape: shape, Kind: kinds[i%3], Hist: h, Hooks: i%4 == 0}
			c.Name = fmt.Sprintf("%s/%s/prng:%s", shape, c.Kind, strings.Join(h, ","))
			cs = append(cs, fw.MkCase("prng", &c))
		}
	}
	// events delivered while nothing listens at a catch event with several definitions must not count for the
	// token that arrives later
	for _, kind := range []string{"parallel", "plain"} {
		for d := 2; d <= 3; d++ {
			var rec func(p []int, held bool)
			rec = func(p []int, held bool) {
				if len(p) >= 2 {
					c := c11Case{Shape: "pm", Kind: "signal", PMKind: kind, PMDefs: d, PMHist: append([]int(nil), p...)}
					c.Name = fmt.Sprintf("pm/%s/d%d/%v", kind, d, p)
					cs = append(cs, fw.MkCase("pm-idle", &c))
				}
				if len(p) == 5 {
					return
				}
				for e := -1; e < d; e++ {
					if e == -1 && !held {
						continue
					}
					rec(append(p, e), held && e != -1)
				}
			}
			rec(nil, true)
		}
	}
	return fw.Number(cs)
}

func c11Run(c *c11Case, env *fw.Env, v *fw.V) {
	g, refs := c11Graph(c)
	defs, _, err := step.Parse(g)
	if err != nil {
		v.Inconclusive("parse", "%v", err)
		return
	}
	if c.Hooks {
		perturb.ConfigureSites(map[string]float64{"catch.consume": 0.5, "catch.event": 0.5, "flow.action": 0.2}, 300)
	} else {
		perturb.Off()
	}
	in, err := drive.New(env.Label, defs, drive.Opts{ExtraSubs: 1})
	if err != nil {
		v.Violate("new-process-error", "error", "%v", err)
		return
	}
	defer in.Cancel()
	m := refsem.New(g, nil, nil)
	cls := c.Shape
	fail := func() { v.Log = in.Tail(50) }
	check := func(what string) bool {
		q := in.Quiesce(step.Watchdog)
		v.Add("qpoints", 1)
		if !q.Quiescent {
			v.Inconclusive("watchdog", "no quiescent point %s: %v", what, quiesce.Summary(q.Gs))
			return false
		}
		if gs := quiesce.DriverIn(q.Gs, "Process).ConsumeEvent"); len(gs) > 0 {
			v.Violate("consume-blocked", shortFn(gs[0].TopRepoFrame()), "%s: ConsumeEvent still blocked at the quiescent point (at %s); history %v", what, gs[0].TopRepoFrame(), c.Hist)
			fail()
			return false
		}
		exp := m.PendingList()
		got := in.PendingActs()
		if !reflect.DeepEqual(exp, got) && !(len(exp) == 0 && len(got) == 0) {
			rule := "listener-missed"
			if len(got) > len(exp) {
				rule = "listener-spurious"
			}
			v.Violate(rule, cls, "%s: pending requests %v, reference expects %v (armed listeners %v); history %v", what, got, exp, m.Armed, c.Hist)
			fail()
			return false
		}
		return true
	}
	if err := in.Start(); err != nil {
		v.Violate("start-error", "error", "%v", err)
		return
	}
	m.StartAll()
	if !check("after start") {
		return
	}
	delivered := 0
	restarted := false
	for i, h := range c.Hist {
		kind, arg, _ := strings.Cut(h, ":")
		switch kind {
		case "e":
			ev := c11Event(c.Kind, arg)
			in.Go("ConsumeEvent", func() error { _, err := in.Proc.ConsumeEvent(ev); return err })
			delivered++
			// reference: every armed listener whose definition matches continues once
			var fire []string
			for id, ref := range refs {
				if ref == arg && m.Armed[id] > 0 {
					fire = append(fire, id)
				}
			}
			for _, id := range fire {
				m.Fire(id)
			}
		case "b", "m":
			var evs []event.IEvent
			if kind == "b" {
				for k := 0; k < 12; k++ {
					evs = append(evs, c11Event(c.Kind, "zz"))
				}
				evs = append(evs, c11Event(c.Kind, arg))
			} else {
				for k := 0; k < 6; k++ {
					evs = append(evs, c11Event(c.Kind, arg))
				}
			}
			in.Go("ConsumeEvent", func() error {
				for _, ev := range evs {
					if _, err := in.Proc.ConsumeEvent(ev); err != nil {
						return err
					}
				}
				return nil
			})
			delivered += len(evs)
			v.Add("bursts", 1)
			// reference: the listeners armed now and matching continue once (nothing re-arms a catch
			// event before the driver acts again: every catch event is followed by a task)
			var fire []string
			for id, ref := range refs {
				if ref == arg && m.Armed[id] > 0 {
					fire = append(fire, id)
				}
			}
			for _, id := range fire {
				m.Fire(id)
			}
		case "x":
			for _, ev := range c11Cross(c.Kind, arg) {
				in.Go("ConsumeEvent", func() error { _, err := in.Proc.ConsumeEvent(ev); return err })
				delivered++
			}
		case "s":
			// the instance has completed and is started again: its catch events listen again
			if !m.Complete() {
				continue
			}
			call := in.Go("StartAll", func() error { return in.Proc.StartAll(in.Ctx) })
			m.StartAll()
			restarted = true
			if !check(fmt.Sprintf("after step %d (%s)", i, h)) {
				return
			}
			if d, err := call.Done(); !d || err != nil {
				v.Violate("caller-blocked", "Process).StartAll", "second StartAll: returned=%v err=%v", d, err)
				return
			}
			continue
		case "a":
			var req *drive.Req
			for _, r := range in.Pending() {
				if r.Act == arg {
					req = r
				}
			}
			if req == nil || m.Pending[arg] == 0 {
				continue
			}
			in.Answer(req, bpmn.DoWithResults(nil))
			m.Answer(arg, nil)
		}
		if !check(fmt.Sprintf("after step %d (%s)", i, h)) {
			return
		}
	}
	// drain: answer whatever is pending; instance completes iff the reference does
	for guard := 0; guard < 10; guard++ {
		p := in.Pending()
		if len(p) == 0 {
			break
		}
		in.Answer(p[0], bpmn.DoWithResults(nil))
		m.Answer(p[0].Act, nil)
		if !check("while draining") {
			return
		}
	}
	n := in.Count("CeaseFlow", "")
	if restarted {
		// (completion is reported once per instance: what a second round does to it is C02's matter, not checked here)
		v.Add("events-delivered", delivered)
		v.Add("restarts", 1)
		return
	}
	if m.Complete() && n != 1 {
		v.Violate("not-complete", cls, "reference complete but %d cease-flow traces", n)
		fail()
	}
	if !m.Complete() && n != 0 {
		v.Violate("early-cease", cls, "cease-flow trace while listeners %v are still armed", m.Armed)
		fail()
	}
	v.Add("events-delivered", delivered)
	v.Add("traces", len(in.Log(0)))
}

func init() {
	fw.Register(&fw.Prop{
		ID:    "C11",
		Cases: c11Cases,
		Run: func(c fw.Case, env *fw.Env) *fw.V {
			v := fw.NewV(c)
			var cc c11Case
			if err := json.Unmarshal(c.Desc, &cc); err != nil {
				v.Inconclusive("descriptor", "%v", err)
				return v
			}
			if cc.Shape == "pm" {
				tmp := fw.NewV(fw.Case{})
				c14Process2(&c14Case{Level: "process2", Kind: cc.PMKind, Defs: cc.PMDefs, Hist: cc.PMHist}, env, tmp)
				for _, f := range tmp.Findings {
					if f.Status == fw.Violation {
						v.Violate("idle-or-partial-event-effect", "pm-"+cc.PMKind, "%s", f.Msg)
					} else {
						v.Inconclusive(f.Rule, "%s", f.Msg)
					}
				}
				v.Log = tmp.Log
				v.Nontrivial = true
				return v
			}
			if cc.Shape == "model" {
				c11Model(&cc, v)
				v.Nontrivial = true
				return v
			}
			c11Run(&cc, env, v)
			ne := 0
			for _, h := range cc.Hist {
				if strings.HasPrefix(h, "e:") || strings.HasPrefix(h, "x:") || strings.HasPrefix(h, "b:") || strings.HasPrefix(h, "m:") {
					ne++
				}
			}
			v.Nontrivial = ne > 0
			return v
		},
		Rule:        "processes with catch events in sequence, in parallel branches, two listeners for one event, two tokens waiting at one catch event (together, or one after the other was released), behind a pending task, on a branch never taken, inside an embedded sub-process; signal / message / message-with-operation definitions; all histories of length <= 4 (quick: length-4 strided) and PRNG histories of length 5..8 over {matching event per listener, non-matching event, task answers}, events delivered before, while and after the listeners are armed; a (parallel-)multiple catch event with 2..3 definitions reached by two tokens one after the other with events also arriving while no token waits (histories <= 5); burst histories (every history of length <= 2 followed by 12 non-matching events and the awaited one, or 6 copies of the awaited one, handed over back to back from one goroutine without letting the instance settle: more than a node's inbox holds); after every step the pending requests must equal the reference (armed matching listeners continue exactly once, nothing else reacts) and no ConsumeEvent caller may still be blocked; non-trivial = history delivers at least one event; distinct = descriptor hash",
		Assumptions: []string{"a token waiting at a catch event is one listener: two tokens at one catch event both continue on one matching event"},
	})
}
