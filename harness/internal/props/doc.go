// Package props registers one check per property (C01..C20).
package props
