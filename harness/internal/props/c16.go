package props

import (
	"time"
	"encoding/json"
	"fmt"
	"math"
	"reflect"
	"runtime/debug"
	"strings"

	"github.com/olive-io/bpmn/schema"
	bpmn "github.com/olive-io/bpmn/v2"
	"github.com/olive-io/bpmn/v2/pkg/data"

	"verif/internal/drive"
	"verif/internal/fw"
	"verif/internal/gen"
	"verif/internal/perturb"
	"verif/internal/quiesce"
	"verif/internal/step"
)

type c16Case struct {
	Name  string `json:"name"`
	Kind  string `json:"kind"`  // direct | typed | engine | refs | isolation
	From  int    `json:"from"`  // value index range
	To    int    `json:"to"`
	Route string `json:"route"` // engine: variables | results | objects | withobjects
	Type  string `json:"type"`  // typed: declared item type
	Sub   bool   `json:"sub,omitempty"` // engine: an embedded sub-process stands between the storing and the reading task
}

type c16S struct {
	A int               `json:"a"`
	B string            `json:"b"`
	C []float64         `json:"c"`
	D map[string]any    `json:"d"`
	E *c16S             `json:"e,omitempty"`
	F bool              `json:"f"`
}

type c16NoTags struct {
	Name  string
	Count int
	Inner struct{ X, Y int }
}

// named scalar types with a String method of their own (what fmt prints for them is not their value)
type c16Enum int

func (e c16Enum) String() string { return [...]string{"low", "mid", "high"}[e%3] }

type c16Label string

func (l c16Label) String() string { return "label<" + string(l) + ">" }

type c16Ratio float64

func (r c16Ratio) String() string { return "ratio" }

type c16Flag bool

func (f c16Flag) String() string { return "flag" }

type c16Plain int32

type c16Val struct {
	Name string
	V    any
	Type schema.ItemType // expected item type ("" = nil-like: no type demanded)
	// Want, when HasWant, is the canonical form to expect (values that are not plain Go data: a typed
	// item handed over as *schema.Value must come back as the value it carries)
	Want    any
	HasWant bool
}

func c16Values() []c16Val {
	var vs []c16Val
	add := func(name string, v any, t schema.ItemType) { vs = append(vs, c16Val{Name: name, V: v, Type: t}) }
	// every signed and unsigned width at 0, ±1, min, max (unsigned capped at MaxInt64)
	add("int0", int(0), schema.ItemTypeInteger)
	add("int-1", int(-1), schema.ItemTypeInteger)
	add("intmax", int(math.MaxInt64), schema.ItemTypeInteger)
	add("intmin", int(math.MinInt64), schema.ItemTypeInteger)
	add("int8min", int8(math.MinInt8), schema.ItemTypeInteger)
	add("int8max", int8(math.MaxInt8), schema.ItemTypeInteger)
	add("int16min", int16(math.MinInt16), schema.ItemTypeInteger)
	add("int16max", int16(math.MaxInt16), schema.ItemTypeInteger)
	add("int32min", int32(math.MinInt32), schema.ItemTypeInteger)
	add("int32max", int32(math.MaxInt32), schema.ItemTypeInteger)
	add("int64min", int64(math.MinInt64), schema.ItemTypeInteger)
	add("int64max", int64(math.MaxInt64), schema.ItemTypeInteger)
	add("int64-1", int64(-1), schema.ItemTypeInteger)
	add("uint0", uint(0), schema.ItemTypeInteger)
	add("uint1", uint(1), schema.ItemTypeInteger)
	add("uintbig", uint(math.MaxInt64), schema.ItemTypeInteger)
	add("uint8max", uint8(math.MaxUint8), schema.ItemTypeInteger)
	add("uint16max", uint16(math.MaxUint16), schema.ItemTypeInteger)
	add("uint32max", uint32(math.MaxUint32), schema.ItemTypeInteger)
	add("uint64-7", uint64(7), schema.ItemTypeInteger)
	add("uint64big", uint64(math.MaxInt64), schema.ItemTypeInteger)
	// floats
	for i, f := range []float64{0, math.Copysign(0, -1), 1.5, -2.25, 1e-9, 5e-324, 1e300, math.MaxFloat64, 0.1, 123456789.123456789, 1e21, 3} {
		add(fmt.Sprintf("float%d", i), f, schema.ItemTypeFloat)
	}
	add("float32a", float32(0.1), schema.ItemTypeFloat)
	add("float32b", float32(16777216), schema.ItemTypeFloat)
	// strings
	for i, s := range []string{"", "plain", "ünïcödé ✓ 日本語 🚀", `quo"tes'`, "<a&b>", "nul\x00byte", "new\nline\ttab", strings.Repeat("x", 5000), "true", "42", "[1,2]", `{"a":1}`} {
		add(fmt.Sprintf("string%d", i), s, schema.ItemTypeString)
	}
	add("true", true, schema.ItemTypeBoolean)
	add("false", false, schema.ItemTypeBoolean)
	// named scalar types, with and without a String method
	add("duration", 90*time.Second, schema.ItemTypeInteger)
	add("month", time.March, schema.ItemTypeInteger)
	add("weekday", time.Saturday, schema.ItemTypeInteger)
	add("enum", c16Enum(2), schema.ItemTypeInteger)
	add("plain-named-int", c16Plain(-5), schema.ItemTypeInteger)
	add("label", c16Label("x"), schema.ItemTypeString)
	add("ratio", c16Ratio(2.5), schema.ItemTypeFloat)
	add("flag", c16Flag(true), schema.ItemTypeBoolean)
	dur, en := 3*time.Millisecond, c16Enum(1)
	add("ptr-duration", &dur, schema.ItemTypeInteger)
	add("ptr-enum", &en, schema.ItemTypeInteger)
	// containers
	add("slice-empty", []int{}, schema.ItemTypeArray)
	add("slice-int", []int{1, 2, 3}, schema.ItemTypeArray)
	add("slice-any", []any{1, "a", true, nil, 2.5, []any{1}, map[string]any{"k": "v"}}, schema.ItemTypeArray)
	add("slice-string", []string{"a", "", "ü"}, schema.ItemTypeArray)
	add("array3", [3]int{7, 8, 9}, schema.ItemTypeArray)
	add("slice-nested", [][]int{{1}, {}, {2, 3}}, schema.ItemTypeArray)
	add("bytes", []byte("hello"), schema.ItemTypeArray)
	add("bytes-empty", []byte{}, schema.ItemTypeArray)
	add("map-empty", map[string]any{}, schema.ItemTypeObject)
	add("map-flat", map[string]any{"a": 1, "b": "x", "c": true, "d": nil, "e": 1.5}, schema.ItemTypeObject)
	add("map-string", map[string]string{"k": "v", "": "empty key", "ü": "ü"}, schema.ItemTypeObject)
	add("map-int", map[string]int{"one": 1, "max": math.MaxInt32}, schema.ItemTypeObject)
	deep := any("leaf")
	for i := 0; i < 5; i++ {
		if i%2 == 0 {
			deep = map[string]any{"d": deep, "n": i}
		} else {
			deep = []any{deep, i}
		}
	}
	add("deep5", deep, schema.ItemTypeObject)
	add("struct-tags", c16S{A: 1, B: "b", C: []float64{1.5}, D: map[string]any{"x": 1}, E: &c16S{A: 2}, F: true}, schema.ItemTypeObject)
	add("struct-notags", c16NoTags{Name: "n", Count: 3}, schema.ItemTypeObject)
	add("ptr-struct", &c16S{A: 5, B: "p"}, schema.ItemTypeObject)
	i42, s42, f42, b42 := 42, "s", 4.2, true
	add("ptr-int", &i42, schema.ItemTypeInteger)
	add("ptr-string", &s42, schema.ItemTypeString)
	add("ptr-float", &f42, schema.ItemTypeFloat)
	add("ptr-bool", &b42, schema.ItemTypeBoolean)
	add("ptr-slice", &[]int{1, 2}, schema.ItemTypeArray)
	add("ptr-map", &map[string]any{"a": 1}, schema.ItemTypeObject)
	// typed items handed over as they are (a handler answering with *schema.Value)
	item := func(name string, t schema.ItemType, text string, want any) {
		vs = append(vs, c16Val{Name: name, V: &schema.Value{ItemType: t, ItemValue: text}, Type: t, Want: want, HasWant: true})
	}
	item("item-integer", schema.ItemTypeInteger, "7", int64(7))
	item("item-float", schema.ItemTypeFloat, "1.5", 1.5)
	item("item-string", schema.ItemTypeString, "hello", "hello")
	item("item-boolean", schema.ItemTypeBoolean, "true", true)
	item("item-object", schema.ItemTypeObject, `{"a":1}`, map[string]any{"a": float64(1)})
	item("item-array", schema.ItemTypeArray, `[1,2]`, []any{float64(1), float64(2)})
	// nil-likes: must not panic; no type demanded
	add("nil", nil, "")
	add("nil-ptr-int", (*int)(nil), "")
	add("nil-ptr-struct", (*c16S)(nil), "")
	add("nil-slice", []int(nil), schema.ItemTypeArray)
	add("nil-map", map[string]any(nil), schema.ItemTypeObject)
	return vs
}

// canonical form of a Go value: what encoding/json round-trips it to, with
// top-level integers as int64.
func c16Canon(v any) any {
	rv := reflect.ValueOf(v)
	for rv.IsValid() && rv.Kind() == reflect.Pointer {
		if rv.IsNil() {
			return nil
		}
		rv = rv.Elem()
	}
	if !rv.IsValid() {
		return nil
	}
	switch rv.Kind() {
	case reflect.Int, reflect.Int8, reflect.Int16, reflect.Int32, reflect.Int64:
		return rv.Int()
	case reflect.Uint, reflect.Uint8, reflect.Uint16, reflect.Uint32, reflect.Uint64:
		return int64(rv.Uint())
	case reflect.Float32, reflect.Float64:
		return rv.Float()
	case reflect.String:
		return rv.String()
	case reflect.Bool:
		return rv.Bool()
	}
	b, err := json.Marshal(v)
	if err != nil {
		return fmt.Sprintf("<unmarshalable: %v>", err)
	}
	var out any
	json.Unmarshal(b, &out)
	return out
}

func c16Equal(want, got any, orig any) bool {
	if w, ok := want.(float64); ok {
		g, ok := got.(float64)
		if !ok {
			return false
		}
		if w == g && math.Signbit(w) == math.Signbit(g) {
			return true
		}
		return false
	}
	// nil slices / maps read back as empty or nil
	if want == nil {
		switch g := got.(type) {
		case nil:
			return true
		case []any:
			return len(g) == 0
		case map[string]any:
			return len(g) == 0
		case string:
			return g == ""
		}
		return false
	}
	// byte slices: base64 string or array of numbers
	if bs, ok := orig.([]byte); ok {
		if s, ok := got.(string); ok {
			return s == want
		}
		if arr, ok := got.([]any); ok {
			if len(arr) != len(bs) {
				return false
			}
			for i := range arr {
				if f, ok := arr[i].(float64); !ok || byte(f) != bs[i] {
					return false
				}
			}
			return true
		}
		return false
	}
	if w, ok := want.([]any); ok && len(w) == 0 {
		if g, ok := got.([]any); ok && len(g) == 0 {
			return true
		}
	}
	if w, ok := want.(map[string]any); ok && len(w) == 0 {
		if g, ok := got.(map[string]any); ok && len(g) == 0 {
			return true
		}
	}
	return reflect.DeepEqual(want, got)
}

// guard runs f and converts a panic into a violation whose class is the innermost /repo frame.
func guard(v *fw.V, what string, f func()) (ok bool) {
	defer func() {
		if r := recover(); r != nil {
			st := string(debug.Stack())
			site := "unknown"
			lines := strings.Split(st, "\n")
			for i := 0; i+1 < len(lines); i++ {
				if strings.Contains(lines[i+1], "/repo/") && !strings.Contains(lines[i+1], "_test.go") {
					site = strings.TrimSpace(lines[i])
					if p := strings.LastIndexByte(site, '('); p > 0 {
						site = site[:p]
					}
					site = shortFn(site)
					break
				}
			}
			v.Violate("panic", site, "%s panicked: %v (at %s)", what, r, site)
			ok = false
		}
	}()
	f()
	return true
}

func kindName(v any) string {
	if v == nil {
		return "nil"
	}
	rv := reflect.ValueOf(v)
	k := rv.Kind().String()
	if rv.Kind() == reflect.Pointer {
		if rv.IsNil() {
			return "nil-pointer"
		}
		return "ptr-" + rv.Elem().Kind().String()
	}
	if _, ok := v.([]byte); ok {
		return "bytes"
	}
	if rv.Kind() == reflect.Slice && rv.IsNil() {
		return "nil-slice"
	}
	if rv.Kind() == reflect.Map && rv.IsNil() {
		return "nil-map"
	}
	return k
}

func c16CheckRead(v *fw.V, route string, val c16Val, typ schema.ItemType, got any) {
	want := c16Canon(val.V)
	if val.HasWant {
		want = val.Want
	}
	if val.Type != "" && typ != val.Type {
		v.Violate("item-type", route+"/"+kindName(val.V), "%s: value %s (%T) stored with item type %q, expected %q", route, val.Name, val.V, typ, val.Type)
		return
	}
	if f32, ok := val.V.(float32); ok {
		if g, ok := got.(float64); ok && float32(g) == f32 {
			return
		}
	}
	if !c16Equal(want, got, val.V) {
		v.Violate("value-changed", route+"/"+kindName(val.V), "%s: value %s (%T) read back as %#v (%T), canonical form is %#v", route, val.Name, val.V, trunc(got), got, trunc(want))
	}
}

// c16Scribble edits a composite value in place the way a careless reader (or the caller that stored it)
// might: nested containers first, then every map entry deleted (and a new key added), every slice element
// overwritten. It reports whether anything could be edited.
func c16Scribble(x any) bool {
	if x == nil {
		return false
	}
	return scribble(reflect.ValueOf(x))
}

func scribble(rv reflect.Value) bool {
	switch rv.Kind() {
	case reflect.Pointer, reflect.Interface:
		if rv.IsNil() {
			return false
		}
		return scribble(rv.Elem())
	case reflect.Map:
		if rv.IsNil() {
			return false
		}
		done := false
		for _, k := range rv.MapKeys() {
			scribble(rv.MapIndex(k))
		}
		for _, k := range rv.MapKeys() {
			rv.SetMapIndex(k, reflect.Value{})
			done = true
		}
		if rv.Type().Key().Kind() == reflect.String && rv.Type().Elem().Kind() == reflect.Interface {
			rv.SetMapIndex(reflect.ValueOf("scribbled").Convert(rv.Type().Key()), reflect.ValueOf(true))
			done = true
		}
		return done
	case reflect.Slice, reflect.Array:
		done := false
		for i := 0; i < rv.Len(); i++ {
			e := rv.Index(i)
			scribble(e)
			if !e.CanSet() {
				continue
			}
			done = true
			switch e.Kind() {
			case reflect.Interface:
				e.Set(reflect.ValueOf("scribbled"))
			case reflect.String:
				e.SetString("scribbled")
			case reflect.Bool:
				e.SetBool(!e.Bool())
			case reflect.Int, reflect.Int8, reflect.Int16, reflect.Int32, reflect.Int64:
				e.SetInt(e.Int() ^ 1)
			case reflect.Uint, reflect.Uint8, reflect.Uint16, reflect.Uint32, reflect.Uint64:
				e.SetUint(e.Uint() ^ 1)
			case reflect.Float32, reflect.Float64:
				e.SetFloat(e.Float() + 1)
			default:
				e.Set(reflect.Zero(e.Type()))
			}
		}
		return done
	case reflect.Struct:
		done := false
		for i := 0; i < rv.NumField(); i++ {
			f := rv.Field(i)
			switch f.Kind() {
			case reflect.Map, reflect.Slice, reflect.Pointer, reflect.Interface, reflect.Struct, reflect.Array:
				if f.CanInterface() && scribble(f) {
					done = true
				}
			}
		}
		return done
	}
	return false
}

// c16Reread: what a reader does with the value it was handed, and what the caller does afterwards with the
// value it stored, must not change what the store holds: the value read first is edited in place, then the
// original, and the same route is read again after each.
func c16Reread(v *fw.V, route string, pristine c16Val, given any, first any, read func() (any, schema.ItemType, bool)) {
	if c16Scribble(first) {
		v.Add("rereads-after-reader-edit", 1)
		if got, typ, ok := read(); !ok {
			v.Violate("value-lost", route+"/after-reader-edit/"+kindName(pristine.V), "%s: value %s gone after the reader edited the value it had been handed", route, pristine.Name)
		} else {
			c16CheckRead(v, route+"/after-reader-edit", pristine, typ, got)
		}
	}
	if c16Scribble(given) {
		v.Add("rereads-after-caller-edit", 1)
		if got, typ, ok := read(); !ok {
			v.Violate("value-lost", route+"/after-caller-edit/"+kindName(pristine.V), "%s: value %s gone after the caller edited the value it had stored", route, pristine.Name)
		} else {
			c16CheckRead(v, route+"/after-caller-edit", pristine, typ, got)
		}
	}
}

func trunc(v any) any {
	s := fmt.Sprintf("%#v", v)
	if len(s) > 200 {
		return s[:200] + "…"
	}
	return v
}

func c16Direct(c *c16Case, v *fw.V) {
	vals := c16Values()
	for i := c.From; i < c.To && i < len(vals); i++ {
		val := vals[i]
		var sv *schema.Value
		if !guard(v, fmt.Sprintf("schema.NewValue(%s %T)", val.Name, val.V), func() { sv = schema.NewValue(val.V) }) {
			continue
		}
		var got any
		if !guard(v, "Value.Value()", func() { got = sv.Value() }) {
			continue
		}
		c16CheckRead(v, "NewValue", val, sv.Type(), got)
		pristine := c16Values()[i]
		c16Reread(v, "NewValue", pristine, val.V, got, func() (any, schema.ItemType, bool) { return sv.Value(), sv.Type(), true })
		// through the locator
		val = c16Values()[i]
		loc := data.NewFlowDataLocator()
		if guard(v, fmt.Sprintf("SetVariable(%s)", val.Name), func() { loc.SetVariable("x", val.V) }) {
			var g2 any
			var found bool
			if guard(v, "GetVariable", func() { g2, found = loc.GetVariable("x") }) {
				if !found {
					v.Violate("value-lost", "locator/"+kindName(val.V), "variable %s not found after SetVariable", val.Name)
				} else {
					it := loc.CloneVariables()["x"]
					c16CheckRead(v, "locator", val, it.Type(), g2)
					c16Reread(v, "locator", pristine, val.V, g2, func() (any, schema.ItemType, bool) {
						g, ok := loc.GetVariable("x")
						if !ok {
							return nil, "", false
						}
						return g, loc.CloneVariables()["x"].Type(), true
					})
					// the value handed out by a clone of the variables
					c16Reread(v, "locator-clone", pristine, nil, loc.CloneVariables()["x"].Value(), func() (any, schema.ItemType, bool) {
						it := loc.CloneVariables()["x"]
						return it.Value(), it.Type(), true
					})
				}
			}
		}
		v.Add("values", 1)
	}
}

func c16Typed(c *c16Case, v *fw.V) {
	vals := c16Values()
	typ := schema.ItemType(c.Type)
	for _, val := range vals {
		iv := &schema.Value{ItemType: typ}
		if !guard(v, fmt.Sprintf("Value{type %s}.ValueFrom(%s %T)", typ, val.Name, val.V), func() { iv.ValueFrom(val.V) }) {
			v.Add("typed-pairs", 1)
			continue
		}
		var got any
		if !guard(v, "Value.Value()", func() { got = iv.Value() }) {
			continue
		}
		v.Add("typed-pairs", 1)
		// a value of exactly the declared kind must survive (pointers and nil-likes: no panic is all the statement demands)
		// (named types - time.Duration, an enum - are taken by the untyped routes; what a typed declaration makes of
		// them is not prescribed: no panic is demanded, nothing more)
		if val.Type == typ && val.Type != "" && reflect.ValueOf(val.V).Kind() != reflect.Pointer && reflect.TypeOf(val.V).PkgPath() == "" {
			c16CheckRead(v, "typed-"+string(typ), val, iv.Type(), got)
		}
		// Item.ToValue path (declared olive items) must not panic either
		it := &schema.Item{Name: "n", Type: typ, Value: fmt.Sprint(val.V)}
		guard(v, "Item.ToValue", func() { _ = it.ToValue().Value() })
	}
}

// engine routes: the value travels through a running instance
func c16Engine(c *c16Case, env *fw.Env, v *fw.V) {
	vals := c16Values()
	g := gen.NewGraph("c16")
	s := g.Add(gen.Start, "start", "")
	t := g.Add(gen.Task, "T", "")
	t.Writes = []string{"r"}
	t.Outputs = []string{"o", "named=DataObject_named", "total=Property_total"}
	n := g.Add(gen.Task, "N", "")
	n.Props = []gen.PropItem{{Name: "r"}, {Name: "x"}}
	n.Inputs = []string{"o", "wo", "named=DataObject_named", "total=Property_total"}
	e := g.Add(gen.End, "end", "")
	g.Connect(s, t, nil)
	if c.Sub {
		// building the sub-process goes over the scope's data locator once more
		sp := g.Add(gen.Sub, "S", "")
		is := g.Add(gen.Start, "is", "S")
		ie := g.Add(gen.End, "ie", "S")
		g.Connect(is, ie, nil)
		g.Connect(t, sp, nil)
		g.Connect(sp, n, nil)
	} else {
		g.Connect(t, n, nil)
	}
	g.Connect(n, e, nil)
	// item-aware elements whose id differs from their name: a data object and a property of the process
	g.Objects = []gen.DataObject{{ID: "wo", Name: "wo"}, {ID: "DataObject_named", Name: "named"}, {ID: "Property_total", Name: "total", Prop: true}}
	defs, _, err := step.Parse(g)
	if err != nil {
		v.Inconclusive("parse", "%v", err)
		return
	}
	perturb.Off()
	for i := c.From; i < c.To && i < len(vals); i++ {
		val := vals[i]
		fw.Rep(env, i, func(env *fw.Env) {
			o := drive.Opts{}
			switch c.Route {
			case "variables":
				o.Vars = map[string]any{"x": val.V}
			case "withobjects":
				o.DataObjects = map[string]any{"wo": val.V}
			}
			var in *drive.Inst
			if !guard(v, fmt.Sprintf("NewProcess with %s=%s (%T)", c.Route, val.Name, val.V), func() { in, err = drive.New(env.Label, defs, o) }) {
				return
			}
			if err != nil {
				v.Violate("new-process-error", c.Route, "%v", err)
				return
			}
			defer in.Cancel()
			if err := in.Start(); err != nil {
				v.Violate("start-error", c.Route, "%v", err)
				return
			}
			quiet := func() bool {
				q := in.Quiesce(step.Watchdog)
				if !q.Quiescent {
					v.Inconclusive("watchdog", "no quiescent point: %v", quiesce.Summary(q.Gs))
					return false
				}
				return true
			}
			if !quiet() {
				return
			}
			reqs := in.Pending()
			if len(reqs) != 1 {
				v.Inconclusive("setup", "pending %v", in.PendingActs())
				return
			}
			switch c.Route {
			case "results":
				in.Answer(reqs[0], bpmn.DoWithResults(map[string]any{"r": val.V}))
			case "objects":
				in.Answer(reqs[0], bpmn.DoWithObjects(map[string]any{"o": val.V}))
			case "named", "total":
				in.Answer(reqs[0], bpmn.DoWithObjects(map[string]any{c.Route: val.V}))
			default:
				in.Answer(reqs[0], bpmn.DoWithResults(nil))
			}
			if !quiet() {
				return
			}
			next := in.Pending()
			if len(next) != 1 || next[0].Act != "N" {
				v.Violate("continuation", c.Route+"/"+kindName(val.V), "after answering with %s (%T) the next task was not requested (pending %v)", val.Name, val.V, in.PendingActs())
				return
			}
			switch c.Route {
			case "variables":
				got, found := in.Proc.Locator().GetVariable("x")
				if !found {
					v.Violate("value-lost", c.Route+"/"+kindName(val.V), "variable given to WithVariables is not there")
					return
				}
				c16CheckRead(v, "WithVariables", val, in.Proc.Locator().CloneVariables()["x"].Type(), got)
				c16Reread(v, "WithVariables", c16Values()[i], val.V, got, func() (any, schema.ItemType, bool) {
					g, ok := in.Proc.Locator().GetVariable("x")
					if !ok {
						return nil, "", false
					}
					return g, in.Proc.Locator().CloneVariables()["x"].Type(), true
				})
				// (the task property "x" is declared without a type, i.e. as string: its
				// declared type governs what it shows, so only absence of panics is checked)
				_ = next[0].Trace.GetProperties()["x"]
			case "results":
				got, found := in.Proc.Locator().GetVariable("r")
				if !found {
					v.Violate("value-lost", c.Route+"/"+kindName(val.V), "declared result %s (%T) was not stored", val.Name, val.V)
					return
				}
				c16CheckRead(v, "DoWithResults", val, in.Proc.Locator().CloneVariables()["r"].Type(), got)
				c16Reread(v, "DoWithResults", c16Values()[i], val.V, got, func() (any, schema.ItemType, bool) {
					g, ok := in.Proc.Locator().GetVariable("r")
					if !ok {
						return nil, "", false
					}
					return g, in.Proc.Locator().CloneVariables()["r"].Type(), true
				})
			case "objects":
				it, ok := next[0].Trace.GetDataObjects()["o"]
				if !ok || it == nil {
					v.Violate("value-lost", c.Route+"/"+kindName(val.V), "declared data output %s (%T) not visible to the next task", val.Name, val.V)
					return
				}
				first := it.Value()
				c16CheckRead(v, "DoWithObjects", val, it.Type(), first)
				c16Reread(v, "DoWithObjects", c16Values()[i], val.V, first, func() (any, schema.ItemType, bool) {
					it, ok := next[0].Trace.GetDataObjects()["o"]
					if !ok || it == nil {
						return nil, "", false
					}
					return it.Value(), it.Type(), true
				})
			case "named", "total":
				// written by name, declared by id: a data object and a process property whose id differs from the name
				it, ok := next[0].Trace.GetDataObjects()[c.Route]
				if !ok || it == nil {
					v.Violate("value-lost", c.Route+"/"+kindName(val.V), "data output %q (%s %T, target declared by id) not visible to the next task's data input", c.Route, val.Name, val.V)
					return
				}
				c16CheckRead(v, "DoWithObjects-"+c.Route, val, it.Type(), it.Value())
			case "withobjects":
				it, ok := next[0].Trace.GetDataObjects()["wo"]
				if !ok || it == nil {
					v.Violate("value-lost", c.Route+"/"+kindName(val.V), "data object given to WithDataObjects (%s %T) not visible to the task", val.Name, val.V)
					return
				}
				first := it.Value()
				c16CheckRead(v, "WithDataObjects", val, it.Type(), first)
				c16Reread(v, "WithDataObjects", c16Values()[i], val.V, first, func() (any, schema.ItemType, bool) {
					it, ok := next[0].Trace.GetDataObjects()["wo"]
					if !ok || it == nil {
						return nil, "", false
					}
					return it.Value(), it.Type(), true
				})
			}
			v.Add("values", 1)
		})
	}
}

// olive property/header references to present paths, absent variables, absent sub-paths, each with each declared type
func c16Refs(c *c16Case, env *fw.Env, v *fw.V) {
	types := []string{"object", "array", "integer", "string", "boolean", "float", ""}
	refs := []string{"$obj.a", "$obj.missing", "$obj.nested.deep", "$missing.a", "$obj", "$", "obj.a", "$str.a", "$arr.0", "$obj.list.1", "$num.x"}
	g := gen.NewGraph("c16r")
	s := g.Add(gen.Start, "start", "")
	t := g.Add(gen.Task, "T", "")
	for i, ty := range types {
		for j, r := range refs {
			t.Props = append(t.Props, gen.PropItem{Name: fmt.Sprintf("p%d_%d", i, j), Type: ty, Ref: r})
			t.Headers = append(t.Headers, gen.PropItem{Name: fmt.Sprintf("h%d_%d", i, j), Type: ty, Ref: r})
		}
		// declared type with a literal value of every shape and with a same-named variable
		for j, lit := range []string{"", "12", "x", "true", "1.5", "[1]", `{"a":1}`, "null"} {
			t.Props = append(t.Props, gen.PropItem{Name: fmt.Sprintf("l%d_%d", i, j), Type: ty, Value: lit})
		}
		for _, name := range []string{"obj", "str", "num", "arr", "flag", "nothing", "fl"} {
			t.Props = append(t.Props, gen.PropItem{Name: name, Type: ty})
		}
	}
	e := g.Add(gen.End, "end", "")
	g.Connect(s, t, nil)
	g.Connect(t, e, nil)
	defs, _, err := step.Parse(g)
	if err != nil {
		v.Inconclusive("parse", "%v", err)
		return
	}
	perturb.Off()
	vars := map[string]any{
		"obj": map[string]any{"a": "text", "n": 5, "nested": map[string]any{"deep": []any{1, "x"}}, "list": []any{1, 2}},
		"str": "plain", "num": 7, "arr": []any{"zero", 1}, "flag": true, "fl": 1e-9,
	}
	in, err := drive.New(env.Label, defs, drive.Opts{Vars: vars})
	if err != nil {
		v.Violate("new-process-error", "refs", "%v", err)
		return
	}
	defer in.Cancel()
	if err := in.Start(); err != nil {
		v.Violate("start-error", "refs", "%v", err)
		return
	}
	q := in.Quiesce(step.Watchdog)
	if !q.Quiescent {
		v.Inconclusive("watchdog", "no quiescent point")
		return
	}
	reqs := in.Pending()
	if len(reqs) != 1 {
		v.Violate("continuation", "refs", "task with %d reference declarations was not requested (pending %v)", len(t.Props), in.PendingActs())
		return
	}
	props := reqs[0].Trace.GetProperties()
	// present path resolves; type string declared for a string path survives
	for i, ty := range types {
		if ty == "string" || ty == "" {
			if p, ok := props[fmt.Sprintf("p%d_0", i)]; !ok || fmt.Sprint(p.Value()) != "text" {
				var pv any
				if ok {
					pv = p.Value()
				}
				v.Violate("reference-not-resolved", "type="+ty, "property with ref $obj.a (declared type %q) resolved to %#v, expected \"text\"", ty, pv)
			}
		}
	}
	v.Add("reference-declarations", len(t.Props)+len(t.Headers))
	in.Answer(reqs[0], bpmn.DoWithResults(nil))
	in.Quiesce(step.Watchdog)
}

func c16Isolation(c *c16Case, env *fw.Env, v *fw.V) {
	g := gen.Lower("p", gen.Seq(gen.T("x", "y")))
	defs, _, err := step.Parse(g)
	if err != nil {
		v.Inconclusive("parse", "%v", err)
		return
	}
	perturb.Off()
	a, err1 := drive.New(env.Label, defs, drive.Opts{Vars: map[string]any{"x": 1, "onlyA": "a"}, DataObjects: map[string]any{"d": map[string]any{"who": "A"}}})
	b, err2 := drive.New(env.Label, defs, drive.Opts{Vars: map[string]any{"x": 2, "onlyB": "b"}, DataObjects: map[string]any{"d": map[string]any{"who": "B"}}})
	if err1 != nil || err2 != nil {
		v.Violate("new-process-error", "isolation", "%v %v", err1, err2)
		return
	}
	defer a.Cancel()
	defer b.Cancel()
	a.Start()
	b.Start()
	a.Quiesce(step.Watchdog)
	b.Quiesce(step.Watchdog)
	for _, r := range a.Pending() {
		a.Answer(r, bpmn.DoWithResults(map[string]any{"x": 100, "y": 101}))
	}
	a.Quiesce(step.Watchdog)
	bv := b.Vars()
	if fmt.Sprint(bv["x"]) != "2" {
		v.Violate("not-isolated", "variables", "instance B's variable x = %v after instance A's task wrote x=100", bv["x"])
	}
	if _, ok := bv["y"]; ok {
		v.Violate("not-isolated", "variables", "instance B sees variable y written by instance A")
	}
	if _, ok := bv["onlyA"]; ok {
		v.Violate("not-isolated", "variables", "instance B sees instance A's initial variable")
	}
	if _, ok := a.Vars()["onlyB"]; ok {
		v.Violate("not-isolated", "variables", "instance A sees instance B's initial variable")
	}
	for _, p := range []struct {
		in   *drive.Inst
		want string
	}{{a, "A"}, {b, "B"}} {
		if loc, ok := p.in.Proc.Locator().FindIItemAwareLocator("."); ok {
			if aw, ok := loc.FindItemAwareById("d"); ok && aw.Get() != nil {
				if m, ok := aw.Get().Value().(map[string]any); !ok || m["who"] != p.want {
					v.Violate("not-isolated", "data-objects", "instance %s reads data object d = %v", p.want, aw.Get().Value())
				}
			}
		}
	}
	v.Add("values", 6)
	// the same option values reused for two instances (and for an instance without
	// any initial variables) must not make them share state either
	shared := []bpmn.Option{bpmn.WithVariables(map[string]any{"n": 7, "who": "initial"})}
	sharedObj := []bpmn.Option{bpmn.WithDataObjects(map[string]any{"d": map[string]any{"who": "shared"}}), bpmn.WithVariables(map[string]any{"n": 7})}
	for name, ro := range map[string][]bpmn.Option{"same-WithVariables-option": shared, "same-WithDataObjects+WithVariables-options": sharedObj, "no-options": nil} {
		c1, e1 := drive.New(env.Label, defs, drive.Opts{RawOptions: ro})
		c2, e2 := drive.New(env.Label, defs, drive.Opts{RawOptions: ro})
		if e1 != nil || e2 != nil {
			v.Violate("new-process-error", "isolation", "%v %v", e1, e2)
			return
		}
		c1.Start()
		c1.Quiesce(step.Watchdog)
		for _, r := range c1.Pending() {
			c1.Answer(r, bpmn.DoWithResults(map[string]any{"x": 100, "y": 101}))
		}
		c1.Quiesce(step.Watchdog)
		c1.Proc.Locator().SetVariable("n", 99)
		c1.Proc.Locator().SetVariable("extra", "from-1")
		v2 := c2.Vars()
		if _, ok := v2["x"]; ok {
			v.Violate("not-isolated", name, "second instance sees result x written by the first instance's task")
		}
		if _, ok := v2["extra"]; ok {
			v.Violate("not-isolated", name, "second instance sees a variable set on the first instance")
		}
		if n, ok := v2["n"]; ok && fmt.Sprint(n) == "99" {
			v.Violate("not-isolated", name, "second instance's variable n changed to 99 by the first instance")
		}
		if c1.Proc.Locator() == c2.Proc.Locator() {
			v.Violate("not-isolated", name, "both instances use the same locator object")
		}
		c1.Cancel()
		c2.Cancel()
		v.Add("values", 3)
	}
}

func c16Cases(tier string, seed uint64) []fw.Case {
	var cs []fw.Case
	n := len(c16Values())
	for from := 0; from < n; from += 20 {
		c := c16Case{Kind: "direct", From: from, To: from + 20}
		c.Name = fmt.Sprintf("direct/%d", from)
		cs = append(cs, fw.MkCase("direct", &c))
	}
	for _, ty := range []string{"object", "array", "integer", "string", "boolean", "float"} {
		c := c16Case{Kind: "typed", Type: ty, Name: "typed/" + ty}
		cs = append(cs, fw.MkCase("typed", &c))
	}
	for _, route := range []string{"variables", "results", "objects", "withobjects", "named", "total"} {
		for from := 0; from < n; from += 4 {
			c := c16Case{Kind: "engine", Route: route, From: from, To: from + 4}
			c.Name = fmt.Sprintf("engine/%s/%d", route, from)
			cs = append(cs, fw.MkCase("engine", &c))
			if (from/4)%3 == 0 || tier == "thorough" {
				cc := c
				cc.Sub = true
				cc.Name = fmt.Sprintf("engine-sub/%s/%d", route, from)
				cs = append(cs, fw.MkCase("engine", &cc))
			}
		}
	}
	cs = append(cs, fw.MkCase("refs", &c16Case{Kind: "refs", Name: "refs"}))
	cs = append(cs, fw.MkCase("isolation", &c16Case{Kind: "isolation", Name: "isolation"}))
	return fw.Number(cs)
}

func init() {
	fw.Register(&fw.Prop{
		ID:    "C16",
		Cases: c16Cases,
		Run: func(c fw.Case, env *fw.Env) *fw.V {
			v := fw.NewV(c)
			var cc c16Case
			if err := json.Unmarshal(c.Desc, &cc); err != nil {
				v.Inconclusive("descriptor", "%v", err)
				return v
			}
			switch cc.Kind {
			case "direct":
				c16Direct(&cc, v)
			case "typed":
				c16Typed(&cc, v)
			case "engine":
				c16Engine(&cc, env, v)
			case "refs":
				c16Refs(&cc, env, v)
			case "isolation":
				c16Isolation(&cc, env, v)
			}
			v.Nontrivial = true
			return v
		},
		Rule:        "catalogue of Go values (every signed/unsigned width at 0, ±1, min, max with unsigned capped at MaxInt64; floats incl. -0, 5e-324, 1e-9, 1e300, MaxFloat64, float32; strings incl. empty, unicode, quotes, <&>, NUL, 5000 chars, JSON look-alikes; bools; slices, arrays, nested containers to depth 5, byte slices, maps, structs with/without tags, pointers, nil pointers, nil slices/maps, nil) each stored and read back through schema.NewValue, FlowDataLocator, WithVariables, DoWithResults, DoWithObjects, WithDataObjects and compared with its JSON canonical form and item type; every declared item type x every catalogue value through Value.ValueFrom (no panic; matching kinds survive); a task with 200+ olive property/header declarations referencing present paths, absent variables, absent sub-paths under every declared type; two instances with overlapping names; recovered panics and engine-goroutine crashes are violations keyed by the panicking function; distinct = descriptor hash, all non-trivial; the engine routes again in a process with an embedded sub-process between the storing and the reading task",
		Assumptions: []string{"canonical form = encoding/json round trip with top-level integers as int64; a byte slice may come back as base64 string or as array of numbers; nil may read back as nil or an empty value"},
	})
}
