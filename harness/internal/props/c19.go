package props

import (
	"encoding/json"
	"fmt"
	"math"
	"reflect"
	"sort"

	"github.com/olive-io/bpmn/schema"
	bpmn "github.com/olive-io/bpmn/v2"

	"verif/internal/canon"
	"verif/internal/drive"
	"verif/internal/fw"
	"verif/internal/gen"
	"verif/internal/perturb"
	"verif/internal/quiesce"
	"verif/internal/step"
)

var c19Types = []string{"task", "businessRuleTask", "userTask", "callActivity", "manualTask", "sendTask", "scriptTask", "serviceTask", "receiveTask", "subProcess"}

type c19Case struct {
	Name    string    `json:"name"`
	Kind    string    `json:"kind"`    // build | rawids
	Procs   [][]int   `json:"procs"`   // per process: activity type indices
	Preset  bool      `json:"preset"`  // preset ids
	Layout  []float64 `json:"layout"`  // startX, startY, colGap, rowGap, procGap ; nil = DefaultAutoLayoutConfig
	N       int       `json:"n"`       // rawids: number of ids drawn
	Reuse   int       `json:"reuse"`   // 0 fresh ProcessBuilder per process; 1 one builder reused after Out(); 2 reused builder that already produced a discarded process
	Names   [][]string `json:"names,omitempty"` // explicit preset ids per process and activity (valid, pairwise distinct)
	DefReuse int      `json:"defreuse,omitempty"` // the definitions builder has already produced a document with this many processes (0 = fresh builder)
	AST     *gen.Block `json:"ast,omitempty"` // graph: a parsed block-structured process handed to AddProcess (branches, loops, sub-processes)
	Twice   bool      `json:"twice,omitempty"` // graph: AutoLayout called twice
}

func c19Activity(ti int, preset string) schema.ActivityInterface {
	var a schema.ActivityInterface
	switch c19Types[ti] {
	case "task":
		a = &schema.Task{}
	case "businessRuleTask":
		a = &schema.BusinessRuleTask{}
	case "userTask":
		a = &schema.UserTask{}
	case "callActivity":
		a = &schema.CallActivity{}
	case "manualTask":
		a = &schema.ManualTask{}
	case "sendTask":
		a = &schema.SendTask{}
	case "scriptTask":
		a = &schema.ScriptTask{}
	case "serviceTask":
		a = &schema.ServiceTask{}
	case "receiveTask":
		a = &schema.ReceiveTask{}
	case "subProcess":
		sp := &schema.SubProcess{}
		pfx := preset
		if pfx == "" {
			pfx = "sp" + string(schema.RandBytes(6))
		}
		s := schema.StartEvent{}
		s.IdField = schema.NewStringP(pfx + "_s")
		s.OutgoingField = []schema.QName{schema.QName(pfx + "_f")}
		e := schema.EndEvent{}
		e.IdField = schema.NewStringP(pfx + "_e")
		e.IncomingField = []schema.QName{schema.QName(pfx + "_f")}
		f := schema.SequenceFlow{}
		f.IdField = schema.NewStringP(pfx + "_f")
		f.SourceRefField = pfx + "_s"
		f.TargetRefField = pfx + "_e"
		sp.StartEventField = append(sp.StartEventField, s)
		sp.EndEventField = append(sp.EndEventField, e)
		sp.SequenceFlowField = append(sp.SequenceFlowField, f)
		a = sp
	}
	if preset != "" {
		a.SetId(schema.NewStringP(preset))
	}
	return a
}

func c19Cases(tier string, seed uint64) []fw.Case {
	rng := fw.NewRng(seed, "C19")
	var cs []fw.Case
	layouts := [][]float64{nil}
	for _, gap := range [][2]float64{{120, 100}, {121, 101}, {1800, 1200}} {
		for _, org := range [][2]float64{{0, 0}, {-500, -500}, {1e6, 1e6}} {
			layouts = append(layouts, []float64{org[0], org[1], gap[0], gap[1], gap[0]})
		}
	}
	li := 0
	add := func(procs [][]int, preset bool) {
		c := c19Case{Kind: "build", Procs: procs, Preset: preset, Layout: layouts[li%len(layouts)], Reuse: (li / 2) % 3, DefReuse: []int{0, 0, 1, 2, 3}[li%5]}
		li++
		c.Name = fmt.Sprintf("build/%v/preset=%v/layout%d/reuse%d/defreuse%d", procs, preset, li%len(layouts), c.Reuse, c.DefReuse)
		cs = append(cs, fw.MkCase("build", &c))
	}
	// all sequences of length 0..3 (quick: 0..2 exhaustively + strided length 3)
	var rec func(p []int)
	k := 0
	rec = func(p []int) {
		k++
		if len(p) < 3 || tier == "thorough" || k%5 == 0 {
			add([][]int{append([]int(nil), p...)}, k%2 == 0)
		}
		if len(p) == 3 {
			return
		}
		for t := range c19Types {
			rec(append(p, t))
		}
	}
	rec(nil)
	n := 300
	if tier == "thorough" {
		n = 6000
	}
	for i := 0; i < n; i++ {
		np := 1 + rng.Intn(3)
		var procs [][]int
		for p := 0; p < np; p++ {
			l := rng.Intn(13)
			var seq []int
			for j := 0; j < l; j++ {
				seq = append(seq, rng.Intn(len(c19Types)))
			}
			procs = append(procs, seq)
		}
		add(procs, rng.Bool())
	}
	// preset ids made of the same few words joined by underscores, in every order of four and five of them:
	// whatever ids the builder derives for the elements it adds must stay unique next to them
	words := []string{"a", "b_c", "a_b", "c", "b", "a_b_c", "c_a", "flow_a", "start", "end_b"}
	for i := 0; i < 60; i++ {
		n := 4 + i%3
		var ids []string
		for k := 0; k < n; k++ {
			ids = append(ids, words[(i+k*[]int{1, 3, 7, 9}[i%4])%len(words)]) // strides coprime with 10: distinct
		}
		if i < 24 {
			// the first 24: all orders of the four ids that collide when joined pairwise by underscores
			base := []string{"a", "b_c", "a_b", "c"}
			perm := fw.Permutations(4)[i]
			ids = []string{base[perm[0]], base[perm[1]], base[perm[2]], base[perm[3]]}
		}
		seq := make([]int, len(ids))
		for k := range seq {
			seq[k] = (i + k) % len(c19Types)
			if c19Types[seq[k]] == "subProcess" {
				seq[k] = 0
			}
		}
		c := c19Case{Kind: "build", Procs: [][]int{seq}, Preset: true, Names: [][]string{ids}, Layout: layouts[i%len(layouts)]}
		c.Name = fmt.Sprintf("build/names/%v", ids)
		cs = append(cs, fw.MkCase("build", &c))
	}
	// processes that are not chains: parsed block-structured programs (branches, joins, loops = back edges,
	// sub-processes, several end events) handed to AddProcess and laid out
	gprogs := forcedPairs(rng)
	ng := 60
	if tier == "thorough" {
		ng = 600
	}
	gprogs = append(gprogs, randomProgs(rng, ng, 3, 14)...)
	for i, p := range gprogs {
		c := c19Case{Kind: "graph", AST: p.AST, Layout: layouts[i%len(layouts)], Twice: i%4 == 3}
		c.Name = fmt.Sprintf("graph/%s/layout%d", p.Name, i%len(layouts))
		cs = append(cs, fw.MkCase("graph", &c))
	}
	raw := 500000
	if tier == "thorough" {
		raw = 2000000
	}
	for i := 0; i < 4; i++ {
		c := c19Case{Kind: "rawids", N: raw / 4, Name: fmt.Sprintf("rawids/%d", i)}
		cs = append(cs, fw.MkCase("rawids", &c))
	}
	return fw.Number(cs)
}

type rect struct{ x, y, w, h float64 }

func c19Build(c *c19Case, env *fw.Env, v *fw.V) {
	db := schema.NewDefinitionsBuilder()
	var earlier *schema.Definitions
	var earlierDump []string
	if c.DefReuse > 0 {
		// the same definitions builder produced another document before this one
		for i := 0; i < c.DefReuse; i++ {
			pb := schema.NewProcessBuilder()
			pb.AddActivity(c19Activity(i%len(c19Types), ""))
			db.AddProcess(*pb.Out())
		}
		db.AutoLayout(schema.DefaultAutoLayoutConfig())
		// taken out at the end of a chain of calls, as the builder's fluent interface invites
		switch c.DefReuse % 3 {
		case 0:
			earlier = db.Out()
		case 1:
			earlier = db.SetVersion("1.0").Out()
		case 2:
			earlier = db.SetId("Earlier").SetVersion("1.1").Out()
		}
		earlierDump = canon.Model(earlier)
	}
	var wantOrder []string
	nact := 0
	var shared *schema.ProcessBuilder
	if c.Reuse > 0 {
		shared = schema.NewProcessBuilder()
		if c.Reuse == 2 {
			shared.AddActivity(c19Activity(0, ""))
			shared.Out()
		}
	}
	for pi, seq := range c.Procs {
		pb := shared
		if pb == nil {
			pb = schema.NewProcessBuilder()
		}
		for ai, ti := range seq {
			preset := ""
			if c.Preset {
				preset = fmt.Sprintf("act_%d_%d", pi, ai)
			}
			if pi < len(c.Names) && ai < len(c.Names[pi]) {
				preset = c.Names[pi][ai]
			}
			a := c19Activity(ti, preset)
			pb.AddActivity(a)
			nact++
			if pi == 0 && c19Types[ti] != "subProcess" {
				id, _ := a.Id()
				wantOrder = append(wantOrder, *id)
			}
		}
		db.AddProcess(*pb.Out())
	}
	var cfg *schema.AutoLayoutConfig
	if c.Layout == nil {
		cfg = schema.DefaultAutoLayoutConfig()
	} else {
		cfg = &schema.AutoLayoutConfig{StartX: c.Layout[0], StartY: c.Layout[1], ColumnGap: c.Layout[2], RowGap: c.Layout[3], ProcessGap: c.Layout[4]}
	}
	db.AutoLayout(cfg)
	var defs *schema.Definitions
	switch (len(c.Procs) + c.DefReuse + c.Reuse) % 3 {
	case 0:
		defs = db.Out()
	case 1:
		defs = db.SetId("Doc").Out()
	case 2:
		defs = db.SetVersion("2").SetId("Doc").Out()
	}
	cls := fmt.Sprintf("procs=%d", len(c.Procs))
	if c.DefReuse > 0 {
		cls = fmt.Sprintf("procs=%d-after-%d", len(c.Procs), c.DefReuse)
		// the document handed out earlier is not touched by building the next one
		if now := canon.Model(earlier); !reflect.DeepEqual(now, earlierDump) {
			v.Violate("earlier-document-changed", cls, "the document the builder produced before (%d processes) changed while the next one was built: %v", c.DefReuse, firstDiff(earlierDump, now))
			return
		}
	}
	// 0. participants (the builder adds a collaboration when there are several processes): every participant
	// refers to a process of THIS document, none twice; one per process once there are two or more
	{
		pids := map[string]bool{}
		for pi := range *defs.Processes() {
			if id, ok := (*defs.Processes())[pi].Id(); ok {
				pids[*id] = true
			}
		}
		np := 0
		refd := map[string]int{}
		for ci := range *defs.Collaborations() {
			col := &(*defs.Collaborations())[ci]
			for pi := range *col.Participants() {
				np++
				part := &(*col.Participants())[pi]
				ref, ok := part.ProcessRef()
				if !ok || !pids[string(*ref)] {
					r := "<none>"
					if ok {
						r = string(*ref)
					}
					v.Violate("dangling-participant", cls, "participant refers to process %s, which is not in the document (processes %v)", r, keysOf(pids))
					return
				}
				refd[string(*ref)]++
				if refd[string(*ref)] > 1 {
					v.Violate("dangling-participant", cls, "two participants refer to process %s", string(*ref))
					return
				}
			}
		}
		if len(pids) >= 2 && np != len(pids) || len(pids) < 2 && np != 0 {
			v.Violate("participant-count", cls, "%d participants for %d processes", np, len(pids))
			return
		}
	}
	// 1. ids unique
	seen := map[string]int{}
	var countIDs func(el schema.Element)
	allIDs := canon.IDs(defs, nil)
	_ = countIDs
	// canon.IDs de-duplicates; count occurrences separately through the canonical dump
	for _, l := range canon.Model(defs) {
		if i := indexOf(l, "/IdField = "); i >= 0 {
			seen[l[i+len("/IdField = "):]]++
		}
	}
	for id, n := range seen {
		if n > 1 {
			v.Violate("duplicate-id", "builder-ids", "id %s occurs %d times in the built definitions", id, n)
			return
		}
	}
	v.Add("ids", len(allIDs))
	// 2/3. sequence flows and their ends
	for pi := range *defs.Processes() {
		p := &(*defs.Processes())[pi]
		nodes := map[string]schema.FlowNodeInterface{}
		for _, fe := range p.FlowElements() {
			if fn, ok := fe.(schema.FlowNodeInterface); ok {
				if id, ok := fn.Id(); ok {
					nodes[*id] = fn
				}
			}
		}
		has := func(list *[]schema.QName, id string) bool {
			if list == nil {
				return false
			}
			for _, q := range *list {
				if string(q) == id {
					return true
				}
			}
			return false
		}
		for i := range *p.SequenceFlows() {
			sf := &(*p.SequenceFlows())[i]
			id, _ := sf.Id()
			src, ok1 := nodes[*sf.SourceRef()]
			dst, ok2 := nodes[*sf.TargetRef()]
			if !ok1 || !ok2 {
				v.Violate("dangling-flow", cls, "sequence flow %s: source %s exists=%v target %s exists=%v", *id, *sf.SourceRef(), ok1, *sf.TargetRef(), ok2)
				return
			}
			if !has(src.Outgoings(), *id) {
				v.Violate("flow-not-listed", "outgoing", "sequence flow %s is not listed among the outgoing flows of its source %s (%T)", *id, *sf.SourceRef(), src)
				return
			}
			if !has(dst.Incomings(), *id) {
				v.Violate("flow-not-listed", "incoming", "sequence flow %s is not listed among the incoming flows of its target %s (%T)", *id, *sf.TargetRef(), dst)
				return
			}
		}
		for i := range *p.StartEvents() {
			if in := (*p.StartEvents())[i].Incomings(); in != nil && len(*in) > 0 {
				v.Violate("start-with-incoming", cls, "start event has incoming flows %v", *in)
			}
			if out := (*p.StartEvents())[i].Outgoings(); out == nil || len(*out) != 1 {
				v.Violate("start-outgoing", cls, "start event must have exactly one outgoing flow")
			}
		}
		for i := range *p.EndEvents() {
			if out := (*p.EndEvents())[i].Outgoings(); out != nil && len(*out) > 0 {
				v.Violate("end-with-outgoing", cls, "end event has outgoing flows %v", *out)
			}
		}
		// layout: one shape per (top-level) flow node, one edge per sequence flow
		_ = nodes
	}
	if v.Violated() {
		return
	}
	// 6. layout
	if !c19Layout(v, cls, defs, cfg, len(c.Procs) > 0) {
		return
	}
	// 4. XML round trip (C15's oracle)
	d2 := c15Model(v, "builder", defs)
	if d2 == nil {
		return
	}
	// 5. run it: activities requested once each in insertion order, instance completes
	perturb.Off()
	in, err := drive.New(env.Label, d2, drive.Opts{})
	if err != nil {
		v.Violate("new-process-error", cls, "engine rejects the built definitions: %v", err)
		return
	}
	defer in.Cancel()
	if err := in.Start(); err != nil {
		v.Violate("start-error", cls, "%v", err)
		return
	}
	var got []string
	for guard := 0; guard < 40; guard++ {
		q := in.Quiesce(step.Watchdog)
		v.Add("qpoints", 1)
		if !q.Quiescent {
			v.Inconclusive("watchdog", "no quiescent point: %v", quiesce.Summary(q.Gs))
			return
		}
		p := in.Pending()
		if len(p) == 0 {
			break
		}
		if len(p) > 1 {
			v.Violate("run-order", cls, "%d requests pending at once in a linear process: %v", len(p), in.PendingActs())
			return
		}
		got = append(got, p[0].Act)
		in.Answer(p[0], bpmn.DoWithResults(nil))
	}
	if fmt.Sprint(got) != fmt.Sprint(wantOrder) {
		v.Violate("run-order", cls, "activities requested %v, added in order %v", got, wantOrder)
		v.Log = in.Tail(30)
		return
	}
	if n := in.Count("CeaseFlow", ""); n != 1 {
		v.Violate("not-complete", cls, "%d cease-flow traces after every activity was answered (activities %v)", n, c.Procs[0])
		v.Log = in.Tail(30)
	}
	v.Add("activities", nact)
}

// c19Layout: one shape per top-level flow node, one edge per sequence flow, finite coordinates, edges
// starting on their source shape and ending on their target shape, no two shapes overlapping when the gaps
// are at least the node sizes.
func c19Layout(v *fw.V, cls string, defs *schema.Definitions, cfg *schema.AutoLayoutConfig, wantDiagram bool) bool {
	if d := defs.DiagramField; d != nil && d.BPMNPlaneField != nil {
		shapes := map[string]rect{}
		nShapes := 0
		for i := range d.BPMNPlaneField.BPMNShapeFields {
			sh := &d.BPMNPlaneField.BPMNShapeFields[i]
			nShapes++
			b := sh.BoundsField
			if b == nil {
				v.Violate("layout-no-bounds", cls, "shape without bounds")
				return false
			}
			r := rect{b.XField, b.YField, b.WidthField, b.HeightField}
			for _, f := range []float64{r.x, r.y, r.w, r.h} {
				if math.IsNaN(f) || math.IsInf(f, 0) {
					v.Violate("layout-non-finite", cls, "shape %v has a non-finite coordinate", r)
					return false
				}
			}
			shapes[string(*sh.BpmnElementField)] = r
		}
		nNodes, nFlows := 0, 0
		for pi := range *defs.Processes() {
			p := &(*defs.Processes())[pi]
			for _, fe := range p.FlowElements() {
				if _, ok := fe.(schema.FlowNodeInterface); ok {
					nNodes++
				}
			}
			nFlows += len(*p.SequenceFlows())
		}
		if nShapes != nNodes || len(shapes) != nNodes {
			v.Violate("layout-shape-count", cls, "%d shapes (%d distinct elements) for %d flow nodes", nShapes, len(shapes), nNodes)
			return false
		}
		if ne := len(d.BPMNPlaneField.BPMNEdgeFields); ne != nFlows {
			v.Violate("layout-edge-count", cls, "%d edges for %d sequence flows", ne, nFlows)
			return false
		}
		onBorder := func(r rect, x, y float64) bool {
			const eps = 1e-6 * 1e6
			inX := x >= r.x-eps && x <= r.x+r.w+eps
			inY := y >= r.y-eps && y <= r.y+r.h+eps
			onV := math.Abs(x-r.x) <= eps || math.Abs(x-(r.x+r.w)) <= eps
			onH := math.Abs(y-r.y) <= eps || math.Abs(y-(r.y+r.h)) <= eps
			return inX && inY && (onV || onH)
		}
		for i := range d.BPMNPlaneField.BPMNEdgeFields {
			e := &d.BPMNPlaneField.BPMNEdgeFields[i]
			wps := e.WaypointField
			if len(wps) < 2 {
				v.Violate("layout-edge-waypoints", cls, "edge with %d waypoints", len(wps))
				return false
			}
			src, ok1 := shapes[string(*e.SourceElementField)]
			dst, ok2 := shapes[string(*e.TargetElementField)]
			if !ok1 || !ok2 {
				v.Violate("layout-edge-ends", cls, "edge refers to shapes that do not exist")
				return false
			}
			for _, w := range wps {
				if math.IsNaN(w.XField) || math.IsInf(w.XField, 0) || math.IsNaN(w.YField) || math.IsInf(w.YField, 0) {
					v.Violate("layout-non-finite", cls, "edge waypoint is not finite")
					return false
				}
			}
			if !onBorder(src, wps[0].XField, wps[0].YField) {
				v.Violate("layout-edge-ends", "source", "edge starts at (%v,%v), not on its source shape %v", wps[0].XField, wps[0].YField, src)
				return false
			}
			l := wps[len(wps)-1]
			if !onBorder(dst, l.XField, l.YField) {
				v.Violate("layout-edge-ends", "target", "edge ends at (%v,%v), not on its target shape %v", l.XField, l.YField, dst)
				return false
			}
		}
		// no two shapes overlap when the gaps are at least the node sizes
		if cfg.ColumnGap >= 120 && cfg.RowGap >= 100 && cfg.ProcessGap >= 0 {
			keys := make([]string, 0, len(shapes))
			for k := range shapes {
				keys = append(keys, k)
			}
			sort.Strings(keys)
			for i := 0; i < len(keys); i++ {
				for j := i + 1; j < len(keys); j++ {
					a, b := shapes[keys[i]], shapes[keys[j]]
					ox := math.Min(a.x+a.w, b.x+b.w) - math.Max(a.x, b.x)
					oy := math.Min(a.y+a.h, b.y+b.h) - math.Max(a.y, b.y)
					if ox > 1e-6 && oy > 1e-6 {
						v.Violate("layout-overlap", cls, "shapes %s %v and %s %v overlap (gaps %v/%v/%v)", keys[i], a, keys[j], b, cfg.ColumnGap, cfg.RowGap, cfg.ProcessGap)
						return false
					}
				}
			}
		}
		v.Add("shapes", nShapes)
	} else if wantDiagram {
		v.Violate("layout-missing", cls, "AutoLayout produced no diagram")
		return false
	}
	return true
}

func c19Graph(c *c19Case, v *fw.V) {
	g := gen.Lower("p", c.AST)
	parsed, _, err := step.Parse(g)
	if err != nil {
		v.Inconclusive("parse", "%v", err)
		return
	}
	var cfg *schema.AutoLayoutConfig
	if c.Layout == nil {
		cfg = schema.DefaultAutoLayoutConfig()
	} else {
		cfg = &schema.AutoLayoutConfig{StartX: c.Layout[0], StartY: c.Layout[1], ColumnGap: c.Layout[2], RowGap: c.Layout[3], ProcessGap: c.Layout[4]}
	}
	db := schema.NewDefinitionsBuilder()
	db.AddProcess((*parsed.Processes())[0])
	db.AutoLayout(cfg)
	if c.Twice {
		db.AutoLayout(cfg)
	}
	defs := db.Out()
	if c19Layout(v, "graph", defs, cfg, true) {
		v.Add("graphs", 1)
	}
}

func keysOf(m map[string]bool) []string {
	var out []string
	for k := range m {
		out = append(out, k)
	}
	sort.Strings(out)
	return out
}

func firstDiff(a, b []string) string {
	for i := 0; i < len(a) || i < len(b); i++ {
		var x, y string
		if i < len(a) {
			x = a[i]
		}
		if i < len(b) {
			y = b[i]
		}
		if x != y {
			return fmt.Sprintf("line %d: %q -> %q", i, x, y)
		}
	}
	return ""
}

func indexOf(s, sub string) int {
	for i := 0; i+len(sub) <= len(s); i++ {
		if s[i:i+len(sub)] == sub {
			return i
		}
	}
	return -1
}

func c19Raw(c *c19Case, v *fw.V) {
	ids := make([]string, c.N)
	for i := range ids {
		ids[i] = string(schema.RandBytes(7))
	}
	// adjacent duplicates are what a builder would produce within one model
	adj := 0
	for i := 1; i < len(ids); i++ {
		if ids[i] == ids[i-1] {
			adj++
		}
	}
	if adj > 0 {
		v.Violate("duplicate-id", "builder-id-source", "%d of %d consecutive draws from the builders' id source returned the same id as the previous draw", adj, c.N)
	}
	v.Add("ids", c.N)
}

func init() {
	fw.Register(&fw.Prop{
		ID:    "C19",
		Cases: c19Cases,
		Run: func(c fw.Case, env *fw.Env) *fw.V {
			v := fw.NewV(c)
			var cc c19Case
			if err := json.Unmarshal(c.Desc, &cc); err != nil {
				v.Inconclusive("descriptor", "%v", err)
				return v
			}
			switch cc.Kind {
			case "rawids":
				c19Raw(&cc, v)
			case "graph":
				c19Graph(&cc, v)
			default:
				c19Build(&cc, env, v)
			}
			v.Nontrivial = true
			return v
		},
		Rule:        "all activity-type sequences of length 0..2 (quick; 0..3 thorough) and PRNG sequences up to length 12 over the 10 activity types (sub-processes with an inner start->end), with / without preset ids, 1..3 processes per definitions built by fresh process builders, by one builder reused after Out(), or by a builder that already produced another process, layout configurations from the grid gaps {node size, size+1, 10x} x origins {0, -500, 1e6} plus the documented defaults: ids unique, every sequence flow's ends exist and list it, start/end events have no incoming/outgoing, shapes = flow nodes, edges = sequence flows, finite coordinates, edge ends on the border of their shapes, no overlapping shapes, XML round trip (C15 oracle), and the built process runs requesting the added activities once each in insertion order and completes; plus 5e5 / 2e6 raw draws from the builders' id source checked for consecutive duplicates; distinct = descriptor hash, all non-trivial; documents taken from the definitions builder at the end of SetId/SetVersion chains",
		Assumptions: []string{"layout is checked for the flow nodes added through the builder (top level of each process)"},
	})
}
