package props

import (
	"context"
	"encoding/json"
	"fmt"
	"reflect"

	"github.com/olive-io/bpmn/schema"
	bpmn "github.com/olive-io/bpmn/v2"
	"github.com/olive-io/bpmn/v2/pkg/tracing"

	"verif/internal/drive"
	"verif/internal/fw"
	"verif/internal/gen"
	"verif/internal/mon"
	"verif/internal/perturb"
	"verif/internal/quiesce"
	"verif/internal/refsem"
	"verif/internal/step"
)

type c02Case struct {
	Name    string  `json:"name"`
	Starts  int     `json:"starts"`
	Shape   string  `json:"shape"`  // ind | join | short
	Mode    string  `json:"mode"`   // all | each
	Waiters int     `json:"waiters"`
	Attach  string  `json:"attach"` // before | mid | after
	Hist    string  `json:"hist"`   // plain | expired1 | expired2
	Hook    float64 `json:"hook"`
	Reps    int     `json:"reps"`
	// Cancel: the context the instance was created and started with is cancelled while a task request is
	// unanswered ("rest" = right after start, "mid" = after the first of the pending requests was answered);
	// the instance is not complete and must never say so
	Cancel string `json:"cancel,omitempty"`
	// Pre: a call made before the instance is started, under a context of its own that is cancelled as soon as
	// the call has returned: "badstart" = StartWith on an end event (returns an error), "throwall" =
	// ThrowAll (the process has no throw events). Neither starts anything; what follows must be unaffected.
	Pre string `json:"pre,omitempty"`
}

func c02Graph(c *c02Case) *gen.Graph {
	g := gen.NewGraph("c02")
	var join, tj *gen.Node
	if c.Shape == "join" && c.Starts > 1 {
		join = g.Add(gen.And, "J", "")
		tj = g.Add(gen.Task, "tj", "")
		e := g.Add(gen.End, "endj", "")
		g.Connect(join, tj, nil)
		g.Connect(tj, e, nil)
	}
	for i := 1; i <= c.Starts; i++ {
		s := g.Add(gen.Start, fmt.Sprintf("s%d", i), "")
		if c.Shape == "forkend" {
			// a fork whose first branch ends at once while the second waits at a task
			f := g.Add(gen.And, fmt.Sprintf("fk%d", i), "")
			e0 := g.Add(gen.End, fmt.Sprintf("endf%d", i), "")
			a := g.Add(gen.Task, fmt.Sprintf("a%d", i), "")
			e := g.Add(gen.End, fmt.Sprintf("end%d", i), "")
			g.Connect(s, f, nil)
			g.Connect(f, e0, nil)
			g.Connect(f, a, nil)
			g.Connect(a, e, nil)
			continue
		}
		if c.Shape == "sub" {
			// the chain runs through an embedded sub-process (which has a start event of its own)
			sp := g.Add(gen.Sub, fmt.Sprintf("sp%d", i), "")
			is := g.Add(gen.Start, fmt.Sprintf("is%d", i), sp.ID)
			a := g.Add(gen.Task, fmt.Sprintf("a%d", i), sp.ID)
			ie := g.Add(gen.End, fmt.Sprintf("ie%d", i), sp.ID)
			e := g.Add(gen.End, fmt.Sprintf("end%d", i), "")
			g.Connect(s, sp, nil)
			g.Connect(is, a, nil)
			g.Connect(a, ie, nil)
			g.Connect(sp, e, nil)
			continue
		}
		if c.Shape == "skipbnd" {
			// a branch that is never taken holds an activity with a boundary event: its listener exists from the
			// construction of the instance on but is never armed, and must not count as a token
			x := g.Add(gen.Xor, fmt.Sprintf("x%d", i), "")
			hb := g.Add(gen.Task, fmt.Sprintf("hb%d", i), "")
			eh := g.Add(gen.End, fmt.Sprintf("endh%d", i), "")
			b := g.Add(gen.Boundary, fmt.Sprintf("bnd%d", i), "")
			b.Host = hb.ID
			b.Intr = i%2 == 0
			b.Events = []gen.EventDef{{Type: "signal", Ref: fmt.Sprintf("sb%d", i)}}
			tx := g.Add(gen.Task, fmt.Sprintf("tx%d", i), "")
			ex := g.Add(gen.End, fmt.Sprintf("endx%d", i), "")
			a := g.Add(gen.Task, fmt.Sprintf("a%d", i), "")
			e := g.Add(gen.End, fmt.Sprintf("end%d", i), "")
			g.Connect(s, x, nil)
			g.Connect(x, hb, &gen.Cond{Kind: "const", Lit: false})
			d := g.Connect(x, a, nil)
			x.Default = d.ID
			g.Connect(hb, eh, nil)
			g.Connect(b, tx, nil)
			g.Connect(tx, ex, nil)
			g.Connect(a, e, nil)
			continue
		}
		if c.Shape == "badcond" && i == 1 {
			// the only flow out of the first start event carries a condition that cannot be evaluated: its token
			// ends at the start event (an error trace), having fired it all the same
			z := g.Add(gen.Task, "z1", "")
			e := g.Add(gen.End, "end1", "")
			g.Connect(s, z, &gen.Cond{Kind: "fail"})
			g.Connect(z, e, nil)
			continue
		}
		if c.Shape == "short" && i == 1 {
			e := g.Add(gen.End, "end1", "")
			g.Connect(s, e, nil)
			continue
		}
		a := g.Add(gen.Task, fmt.Sprintf("a%d", i), "")
		g.Connect(s, a, nil)
		if join != nil {
			g.Connect(a, join, nil)
		} else {
			e := g.Add(gen.End, fmt.Sprintf("end%d", i), "")
			g.Connect(a, e, nil)
		}
	}
	return g
}

func c02Cases(tier string, seed uint64) []fw.Case {
	var cs []fw.Case
	for starts := 1; starts <= 3; starts++ {
		shapes := []string{"ind", "join", "short", "forkend", "sub", "skipbnd", "badcond"}
		if starts == 1 {
			shapes = []string{"ind", "short", "forkend", "sub", "skipbnd", "badcond"}
		}
		for _, shape := range shapes {
			modes := []string{"all", "each"}
			if starts >= 2 {
				modes = append(modes, "pair")
			}
			for _, mode := range modes {
				for _, w := range []int{1, 2, 4} {
					for _, at := range []string{"before", "mid", "after"} {
						for _, h := range []string{"plain", "expired1", "expired2"} {
							for _, hook := range []float64{0, 0.5, 1} {
								if tier != "thorough" && hook == 0.5 && w == 2 {
									continue // quick: thin the grid a little
								}
								reps := 1
								if tier == "thorough" && hook > 0 {
									reps = 10
								}
								c := c02Case{Starts: starts, Shape: shape, Mode: mode, Waiters: w, Attach: at, Hist: h, Hook: hook, Reps: reps}
								c.Name = fmt.Sprintf("S%d-%s-%s-w%d-%s-%s-h%v", starts, shape, mode, w, at, h, hook)
								cs = append(cs, fw.MkCase("grid", &c))
							}
						}
					}
				}
			}
		}
	}
	// a call that starts nothing, made first under a context that is gone before the instance is started
	for starts := 1; starts <= 2; starts++ {
		for _, shape := range []string{"ind", "sub"} {
			for _, mode := range []string{"all", "each"} {
				for _, pre := range []string{"badstart", "throwall"} {
					for _, at := range []string{"before", "after"} {
						c := c02Case{Starts: starts, Shape: shape, Mode: mode, Waiters: 2, Attach: at, Hist: "plain", Reps: 1, Pre: pre}
						c.Name = fmt.Sprintf("pre-%s-S%d-%s-%s-%s", pre, starts, shape, mode, at)
						cs = append(cs, fw.MkCase("grid", &c))
					}
				}
			}
		}
	}
	// two instances of one process element reporting to one tracer
	for _, mode := range []string{"all", "each"} {
		c := c02Case{Starts: 2, Shape: "ind", Mode: mode, Waiters: 1, Attach: "before", Hist: "plain", Reps: 2, Pre: "siblings"}
		c.Name = "siblings-" + mode
		cs = append(cs, fw.MkCase("grid", &c))
	}
	// the instance's own context cancelled while requests are unanswered
	for starts := 1; starts <= 2; starts++ {
		for _, shape := range []string{"ind", "join", "forkend"} {
			if shape == "join" && starts == 1 {
				continue
			}
			for _, cancel := range []string{"rest", "mid"} {
				for _, h := range []string{"plain", "expired1"} {
					for _, hook := range []float64{0, 0.5} {
						c := c02Case{Starts: starts, Shape: shape, Mode: "all", Waiters: 2, Attach: "before", Hist: h, Hook: hook, Reps: 1, Cancel: cancel}
						if tier == "thorough" && hook > 0 {
							c.Reps = 10
						}
						c.Name = fmt.Sprintf("cancelled-S%d-%s-%s-%s-h%v", starts, shape, cancel, h, hook)
						cs = append(cs, fw.MkCase("cancelled", &c))
					}
				}
			}
		}
	}
	return fw.Number(cs)
}

// c02Cancelled: the context of the instance is cancelled while at least one task request is unanswered. The
// tokens are abandoned, not consumed: no waiter - attached before, after an expired wait, or after the
// cancellation - may return true and no cease-flow trace may appear.
func c02Cancelled(c *c02Case, env *fw.Env, v *fw.V) {
	g := c02Graph(c)
	defs, _, err := step.Parse(g)
	if err != nil {
		v.Inconclusive("parse", "%v", err)
		return
	}
	if c.Hook > 0 {
		perturb.Configure(c.Hook, 200)
	} else {
		perturb.Off()
	}
	in, err := drive.New(env.Label, defs, drive.Opts{ExtraSubs: 1})
	if err != nil {
		v.Violate("new-process-error", "error", "%v", err)
		return
	}
	defer in.Cancel()
	cls := "cancelled-" + c.Cancel
	quiet := func(what string) bool {
		q := in.Quiesce(step.Watchdog)
		v.Add("qpoints", 1)
		if !q.Quiescent {
			v.Inconclusive("watchdog", "no quiescent point %s: %v", what, quiesce.Summary(q.Gs))
			return false
		}
		return true
	}
	if c.Hist == "expired1" {
		ectx, ecancel := context.WithCancel(context.Background())
		ecancel()
		in.Wait(ectx)
	}
	var ws []*drive.Waiter
	for i := 0; i < c.Waiters; i++ {
		ws = append(ws, in.Wait(context.Background()))
	}
	if err := in.Start(); err != nil {
		v.Violate("start-error", "error", "%v", err)
		return
	}
	if !quiet("after start") {
		return
	}
	if c.Cancel == "mid" {
		if p := in.Pending(); len(p) > 1 {
			in.Answer(p[0], bpmn.DoWithResults(nil))
			if !quiet("after the first answer") {
				return
			}
		}
	}
	unanswered := len(in.Pending())
	if unanswered == 0 {
		v.Inconclusive("shape", "no unanswered request at the cancellation point")
		return
	}
	in.Note("cancel.call", "")
	in.Cancel()
	in.Note("cancel.return", "")
	if !quiet("after cancellation") {
		return
	}
	ws = append(ws, in.Wait(context.Background())) // a wait issued after the cancellation
	if !quiet("after a wait issued after the cancellation") {
		return
	}
	for i, w := range ws {
		ret, res, _ := in.WaiterState(w)
		if ret && res {
			v.Violate("complete-after-cancel", cls, "the instance's context was cancelled while %d task request(s) were unanswered, yet waiter %d of %d (the last one was attached after the cancellation) returned true", unanswered, i, len(ws))
			v.Log = in.Tail(30)
			return
		}
		if !ret {
			v.Violate("waiter-blocked", cls, "waiter %d still blocked at the quiescent point after the instance's context was cancelled", i)
			return
		}
	}
	if n := in.Count("CeaseFlow", ""); n != 0 {
		v.Violate("cease-after-cancel", cls, "%d cease-flow trace(s) although the instance was cancelled while %d task request(s) were unanswered", n, unanswered)
		v.Log = in.Tail(30)
	}
}

type c02Run struct {
	v       *fw.V
	in      *drive.Inst
	m       *refsem.State
	waiters []*drive.Waiter
	c       *c02Case
}

func (r *c02Run) quiesce(what string) bool {
	q := r.in.Quiesce(step.Watchdog)
	r.v.Add("qpoints", 1)
	if !q.Quiescent {
		r.v.Inconclusive("watchdog", "no quiescent point %s: %v", what, quiesce.Summary(q.Gs))
		return false
	}
	for _, fn := range []string{"Process).StartAll", "Process).StartWith", "taskTrace).Do"} {
		if gs := quiesce.DriverIn(q.Gs, fn); len(gs) > 0 {
			r.v.Violate("caller-blocked", fn, "%s: caller still inside %s at the quiescent point (blocked at %s)", what, fn, gs[0].TopRepoFrame())
			return false
		}
	}
	exp := r.m.PendingList()
	got := r.in.PendingActs()
	if !reflect.DeepEqual(exp, got) && !(len(exp) == 0 && len(got) == 0) {
		r.v.Violate("pending-mismatch", r.c.Shape, "%s: pending %v, reference expects %v", what, got, exp)
		return false
	}
	if !r.m.Complete() {
		for wi, w := range r.waiters {
			if ret, res, _ := r.in.WaiterState(w); ret && res {
				r.v.Violate("early-complete", "waiter-"+r.c.Attach, "%s: waiter %d returned true while start events fired=%v and pending=%v", what, wi, r.m.Started, exp)
				return false
			}
		}
		if n := r.in.Count("CeaseFlow", ""); n > 0 {
			r.v.Violate("early-cease", r.c.Mode, "%s: cease-flow trace while the reference is not complete (started=%v pending=%v)", what, r.m.Started, exp)
			return false
		}
	}
	return true
}

func (r *c02Run) attach() bool {
	// expired waits first (synchronous semantics, but from a Call goroutine so a blocked wait is observable)
	n := 0
	switch r.c.Hist {
	case "expired1":
		n = 1
	case "expired2":
		n = 2
	}
	for i := 0; i < n; i++ {
		ctx, cancel := context.WithCancel(context.Background())
		cancel()
		var result bool
		call := r.in.Go("ExpiredWait", func() error {
			result = r.in.Proc.WaitUntilComplete(ctx)
			return nil
		})
		q := r.in.Quiesce(step.Watchdog)
		if !q.Quiescent {
			r.v.Inconclusive("watchdog", "no quiescent point after expired wait")
			return false
		}
		if d, _ := call.Done(); !d {
			r.v.Violate("expired-wait-blocked", "wait", "WaitUntilComplete with an already expired context did not return")
			return false
		}
		if result && !r.m.Complete() {
			r.v.Violate("early-complete", "expired-wait", "WaitUntilComplete(expired ctx) returned true while the instance is not complete")
			return false
		}
		r.v.Add("expired-waits", 1)
	}
	for i := 0; i < r.c.Waiters; i++ {
		r.waiters = append(r.waiters, r.in.Wait(context.Background()))
	}
	return true
}

// c02Siblings: two instances of the same process element (two start events, a task behind each) report to ONE
// tracer handed to both (WithTracer). The first is started at its start event s1 only, the second at s2 only;
// both tasks are answered: neither instance is complete, whatever its sibling did. Then each gets its other
// start event: both complete, one cease-flow trace each.
func c02Siblings(c *c02Case, env *fw.Env, v *fw.V) {
	cc := *c
	cc.Starts, cc.Shape = 2, "ind"
	g := c02Graph(&cc)
	defs, _, err := step.Parse(g)
	if err != nil {
		v.Inconclusive("parse", "%v", err)
		return
	}
	perturb.Off()
	ctx, cancel := context.WithCancel(context.Background())
	defer cancel()
	shared := tracing.NewTracer(ctx)
	var insts []*drive.Inst
	for i := 0; i < 2; i++ {
		in, err := drive.New(env.Label, defs, drive.Opts{Ctx: ctx, RawOptions: []bpmn.Option{bpmn.WithTracer(shared)}, NoSubscribe: i == 1})
		if err != nil {
			v.Violate("new-process-error", "error", "%v", err)
			return
		}
		defer in.Cancel()
		insts = append(insts, in)
	}
	a, b := insts[0], insts[1] // a's subscriber sees the traces of both (instance ids tell them apart)
	waiters := []*drive.Waiter{a.Wait(context.Background()), b.Wait(context.Background())}
	quiet := func(what string) bool {
		q := a.Quiesce(step.Watchdog)
		if !q.Quiescent {
			v.Inconclusive("watchdog", "no quiescent point %s: %v", what, quiesce.Summary(q.Gs))
			return false
		}
		return true
	}
	startAt := func(in *drive.Inst, k int) bool {
		starts := *in.Proc.Element().StartEvents()
		if err := in.Proc.StartWith(in.Ctx, schema.FlowNodeInterface(&starts[k])); err != nil {
			v.Violate("start-error", "siblings", "%v", err)
			return false
		}
		return true
	}
	answerAll := func(what string) bool {
		for guard := 0; guard < 6; guard++ {
			if !quiet(what) {
				return false
			}
			p := a.Pending()
			if len(p) == 0 {
				return true
			}
			for _, r := range p {
				a.Answer(r, bpmn.DoWithResults(nil))
			}
		}
		return quiet(what)
	}
	ceases := func(in *drive.Inst) int {
		n := 0
		for _, e := range a.Log(0) {
			if e.Kind == "CeaseFlow" && e.Inst == in.Proc.Id().String() {
				n++
			}
		}
		return n
	}
	first, second := 0, 1
	if c.Mode == "each" {
		first, second = 1, 0
	}
	if !startAt(a, first) || !startAt(b, second) || !answerAll("after one start event each") {
		return
	}
	for i, in := range insts {
		if ret, res, _ := in.WaiterState(waiters[i]); ret && res {
			v.Violate("early-complete", "siblings", "instance %d of two sharing a tracer was reported complete although only one of its two start events has fired (its sibling fired the other one of ITS own)", i+1)
			return
		}
		if n := ceases(in); n != 0 {
			v.Violate("early-cease", "siblings", "instance %d of two sharing a tracer emitted %d cease-flow traces although only one of its two start events has fired", i+1, n)
			return
		}
	}
	if !startAt(a, second) || !startAt(b, first) || !answerAll("after the other start event each") {
		return
	}
	for i, in := range insts {
		if ret, res, _ := in.WaiterState(waiters[i]); !ret || !res {
			v.Violate("waiter-blocked", "siblings", "instance %d of two sharing a tracer: both start events fired and every task is answered, waiter returned=%v result=%v", i+1, ret, res)
			return
		}
		if n := ceases(in); n != 1 {
			v.Violate("cease-count", "siblings", "instance %d of two sharing a tracer: %d cease-flow traces at completion (want exactly 1)", i+1, n)
			return
		}
	}
	v.Add("sibling-pairs", 1)
}

func c02Run1(c *c02Case, env *fw.Env, v *fw.V) {
	if c.Pre == "siblings" {
		c02Siblings(c, env, v)
		return
	}
	g := c02Graph(c)
	defs, _, err := step.Parse(g)
	if err != nil {
		v.Inconclusive("parse", "%v", err)
		return
	}
	if c.Hook > 0 {
		perturb.ConfigureSites(map[string]float64{"process.started": c.Hook, "process.monitor": c.Hook, "process.wait": c.Hook, "flow.loop": c.Hook / 2}, 400)
	} else {
		perturb.Off()
	}
	in, err := drive.New(env.Label, defs, drive.Opts{ExtraSubs: 1})
	if err != nil {
		v.Violate("new-process-error", "error", "%v", err)
		return
	}
	defer in.Cancel()
	m := refsem.New(g, nil, nil)
	r := &c02Run{v: v, in: in, m: m, c: c}
	fail := func() { v.Log = in.Tail(50) }
	if c.Attach == "before" {
		if !r.attach() || !r.quiesce("after attaching waiters before start") {
			fail()
			return
		}
	}
	answer := func(task string) bool {
		for _, rq := range in.Pending() {
			if rq.Act == task {
				in.Answer(rq, bpmn.DoWithResults(nil))
				m.Answer(task, nil)
				return r.quiesce("after answering " + task)
			}
		}
		v.Inconclusive("order", "%s not pending", task)
		return false
	}
	midDone := false
	mid := func() bool {
		if c.Attach == "mid" && !midDone {
			midDone = true
			return r.attach() && r.quiesce("after attaching waiters mid-run")
		}
		return true
	}
	if c.Pre != "" {
		pctx, pcancel := context.WithCancel(context.Background())
		var call *drive.Call
		if c.Pre == "badstart" {
			ends := *in.Proc.Element().EndEvents()
			if len(ends) == 0 {
				v.Inconclusive("setup", "no end event to misuse as a start node")
				pcancel()
				return
			}
			call = in.Go("StartWith", func() error {
				if err := in.Proc.StartWith(pctx, schema.FlowNodeInterface(&ends[0])); err == nil {
					return fmt.Errorf("StartWith on an end event returned no error")
				}
				return nil
			})
		} else {
			// (a process without throw events: ThrowAll reports that and does nothing)
			call = in.Go("ThrowAll", func() error { in.Proc.ThrowAll(pctx); return nil })
		}
		if !r.quiesce("after the preliminary " + c.Pre + " call") {
			pcancel()
			fail()
			return
		}
		if d, err := call.Done(); !d || err != nil {
			v.Violate("caller-blocked", "pre-"+c.Pre, "preliminary %s call: returned=%v err=%v", c.Pre, d, err)
			pcancel()
			fail()
			return
		}
		pcancel()
		if !r.quiesce("after cancelling the context of the preliminary " + c.Pre + " call") {
			fail()
			return
		}
	}
	if c.Mode == "all" {
		call := in.StartAsync()
		m.StartAll()
		if !r.quiesce("after StartAll") {
			fail()
			return
		}
		if d, err := call.Done(); !d || err != nil {
			v.Violate("caller-blocked", "Process).StartAll", "StartAll did not return: %v", err)
			fail()
			return
		}
		if !mid() {
			fail()
			return
		}
	} else {
		starts := *in.Proc.Element().StartEvents()
		for i := range starts {
			se := &starts[i]
			sid, _ := se.Id()
			if c.Mode == "pair" && i == 1 {
				continue // fired together with the first one
			}
			if c.Mode == "pair" && i == 0 && len(starts) >= 2 {
				// the first two start events are triggered at the same time from two goroutines (their first
				// traces interleave); the remaining ones follow one by one once these chains have ended
				se2 := &starts[1]
				sid2, _ := se2.Id()
				barrier := make(chan struct{})
				c1 := in.Go("StartWith", func() error { <-barrier; return in.Proc.StartWith(in.Ctx, schema.FlowNodeInterface(se)) })
				c2 := in.Go("StartWith", func() error { <-barrier; return in.Proc.StartWith(in.Ctx, schema.FlowNodeInterface(se2)) })
				close(barrier)
				m.StartOne(*sid)
				m.StartOne(*sid2)
				if !r.quiesce("after StartWith " + *sid + " and " + *sid2 + " at the same time") {
					fail()
					return
				}
				for _, call := range []*drive.Call{c1, c2} {
					if d, err := call.Done(); !d || err != nil {
						v.Violate("caller-blocked", "Process).StartWith", "concurrent StartWith did not return: %v", err)
						fail()
						return
					}
				}
				if !mid() {
					fail()
					return
				}
				if c.Shape != "join" {
					for _, t := range []string{"a1", "a2"} {
						if m.Pending[t] > 0 && len(starts) > 2 {
							if !answer(t) {
								fail()
								return
							}
						}
					}
				}
				continue
			}
			call := in.Go("StartWith", func() error { return in.Proc.StartWith(in.Ctx, schema.FlowNodeInterface(se)) })
			m.StartOne(*sid)
			if !r.quiesce("after StartWith " + *sid) {
				fail()
				return
			}
			if d, err := call.Done(); !d || err != nil {
				v.Violate("caller-blocked", "Process).StartWith", "StartWith(%s) did not return: %v", *sid, err)
				fail()
				return
			}
			if !mid() {
				fail()
				return
			}
			// independent chains: let this chain run to its end before the next start event fires
			if c.Shape != "join" && i < len(starts)-1 {
				t := fmt.Sprintf("a%d", i+1)
				if m.Pending[t] > 0 {
					if !answer(t) {
						fail()
						return
					}
				}
			}
		}
	}
	// answer the remaining tasks
	for guard := 0; guard < 20; guard++ {
		p := m.PendingList()
		if len(p) == 0 {
			break
		}
		if !answer(p[0]) {
			fail()
			return
		}
	}
	if !m.Complete() {
		v.Inconclusive("model", "model not complete at the end")
		return
	}
	if c.Attach == "after" {
		if !r.attach() || !r.quiesce("after attaching waiters after completion") {
			fail()
			return
		}
	}
	// completion must be reported to every waiter by the quiescent point
	for wi, w := range r.waiters {
		if ret, res, _ := in.WaiterState(w); !ret {
			v.Violate("waiter-blocked", "waiter-"+c.Attach+"-"+c.Hist, "waiter %d still blocked at the quiescent point although every start event fired and no token is left", wi)
		} else if !res {
			v.Violate("waiter-false", "waiter", "waiter %d returned false without cancellation", wi)
		}
	}
	l0 := in.Log(0)
	n, issues := mon.Cease(l0)
	for _, is := range issues {
		v.Violate(is.Rule, c.Mode, "%s", is.Msg)
	}
	if n != 1 {
		v.Violate("cease-count", fmt.Sprintf("starts-%d-%s", c.Starts, c.Mode), "%d cease-flow traces at completion (want exactly 1)", n)
	}
	if is := mon.SameOrder(l0, in.Log(1)); is != nil {
		v.Violate("grammar-"+is.Rule, "engine", "%s", is.Msg)
	}
	v.Add("traces", len(l0))
	v.Add("waits", len(r.waiters))
	if v.Violated() {
		fail()
	}
}

func init() {
	fw.Register(&fw.Prop{
		ID:    "C02",
		Cases: c02Cases,
		Run: func(c fw.Case, env *fw.Env) *fw.V {
			v := fw.NewV(c)
			var cc c02Case
			if err := json.Unmarshal(c.Desc, &cc); err != nil {
				v.Inconclusive("descriptor", "%v", err)
				return v
			}
			for i := 0; i < cc.Reps && !v.Violated(); i++ {
				fw.Rep(env, i, func(env *fw.Env) {
					if cc.Cancel != "" {
						c02Cancelled(&cc, env, v)
					} else {
						c02Run1(&cc, env, v)
					}
				})
				v.Add("runs", 1)
			}
			v.Nontrivial = true
			return v
		},
		Rule:       "full grid: 1..3 start events x {independent chains, chains merging in a parallel join, one chain without task} x {StartAll, StartWith one by one with the earlier chain run to its end, the first two start events triggered at the same time from two goroutines and the rest one by one} x {1,2,4 concurrent waiters} x {attached before start, mid-run, after completion} x {plain, one / two already-expired waits first} x start-up hook delay probability {0,0.5,1}; waiters and cease-flow trace checked against the reference at every quiescent point; cancelled instances (the instance's own context cancelled while task requests are unanswered, at rest or mid-run, with waiters attached before, after an expired wait and after the cancellation): no waiter may return true, none stays blocked, no cease-flow trace; every cell is non-trivial (has waiters and >=1 quiescent comparison); distinct = descriptor hash; shape badcond (the only flow out of the first start event carries a condition that cannot be evaluated)",
		Exhaustive: func(string) bool { return true },
		Assumptions: []string{"'within bounded time' is restated as 'by the next quiescent point'", "context given to WithContext and StartAll/StartWith is the same"},
	})
}
