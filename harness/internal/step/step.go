// Package step implements the two exploration modes of DESIGN.md 2.6 over
// generated process graphs: stepwise (one driver action, quiescence, compare
// with the reference token game) and storm (concurrent answers, final-state
// oracle).
package step

import (
	"context"
	"fmt"
	"reflect"
	"sort"
	"strings"
	"sync"
	"time"

	"github.com/olive-io/bpmn/schema"
	bpmn "github.com/olive-io/bpmn/v2"

	"verif/internal/drive"
	"verif/internal/fw"
	"verif/internal/gen"
	"verif/internal/mon"
	"verif/internal/perturb"
	"verif/internal/quiesce"
	"verif/internal/refsem"
)

// Case describes one run over a graph.
type Case struct {
	Name   string             `json:"name,omitempty"`
	G      *gen.Graph         `json:"g"`
	Vars   map[string]int64   `json:"vars,omitempty"`
	Objs   map[string]int64   `json:"objs,omitempty"`   // data object name -> value of its field v
	Values map[string][]int64 `json:"values,omitempty"` // task -> value written at k-th request
	Order  []string           `json:"order,omitempty"`  // stepwise: task id answered at each step
	Storm  bool               `json:"storm,omitempty"`
	Hooks  float64            `json:"hooks,omitempty"`
	Procs  int                `json:"procs,omitempty"` // GOMAXPROCS
	Reps   int                `json:"reps,omitempty"`  // storm repetitions
	// Waiters attached before start (stepwise): each must return true exactly when the model completes.
	Waiters int `json:"waiters,omitempty"`
	// Family: structural class of the program used in known-finding signatures
	// (when empty the silent-step kinds of the failing step are used).
	Family string `json:"family,omitempty"`
	// Lenient: the engine may lag behind the reference (the statement of the
	// inclusive join allows a window between "every activated branch leading to
	// it has delivered" and "every token of the fork has arrived or ended"):
	// at every step the engine's pending requests must be a sub-multiset of the
	// reference's, and equality is demanded once the engine has nothing pending.
	Lenient bool `json:"lenient,omitempty"`
	// DelaySite/DelayNth/DelayUs: the goroutine making the DelayNth hit of instrumentation site DelaySite
	// pauses DelayUs microseconds (a deterministic schedule perturbation: that goroutine falls behind the
	// others at exactly this code position).
	DelaySite string `json:"delay_site,omitempty"`
	DelayNth  int    `json:"delay_nth,omitempty"`
	DelayUs   int    `json:"delay_us,omitempty"`
	// Defs, when set, is run instead of parsing G (differential runs on a re-parsed model).
	Defs *schema.Definitions `json:"-"`
	// OnRound (storm mode) is called right before the answers of a round are released;
	// it may start finite bursts of additional concurrent API calls (C17).
	OnRound func(in *drive.Inst, round int) `json:"-"`
}

const Watchdog = 8 * time.Second

// outputsOf builds the data objects a task answers for its declared data outputs ({"v": val} each, the body the
// generated conditions read) and notes them for the reference under their names.
func outputsOf(n *gen.Node, val int64, mres map[string]int64) map[string]any {
	if len(n.Outputs) == 0 {
		return nil
	}
	objs := map[string]any{}
	for _, o := range n.Outputs {
		name, _, _ := strings.Cut(o, "=")
		objs[name] = map[string]any{"v": int(val)}
		if mres != nil {
			mres[name] = val
		}
	}
	return objs
}

// Value returns the value task writes at its k-th request (0-based).
func (c *Case) Value(task string, k int) int64 {
	vs := c.Values[task]
	if len(vs) == 0 {
		return int64(k + 1)
	}
	if k >= len(vs) {
		k = len(vs) - 1
	}
	return vs[k]
}

// Parse renders the graph and parses it with the real parser.
func Parse(g *gen.Graph) (*schema.Definitions, string, error) {
	x := gen.XML([]*gen.Graph{g}, nil, "")
	d, err := schema.Parse([]byte(x))
	return d, x, err
}

func (c *Case) opts() drive.Opts {
	o := drive.Opts{ExtraSubs: 1}
	if len(c.Vars) > 0 {
		o.Vars = map[string]any{}
		for k, v := range c.Vars {
			o.Vars[k] = int(v)
		}
	}
	if len(c.Objs) > 0 {
		o.DataObjects = map[string]any{}
		for k, v := range c.Objs {
			o.DataObjects[k] = map[string]any{"v": int(v)}
		}
	}
	return o
}

// EntryTargets derives the maps the grammar monitor needs.
func EntryTargets(g *gen.Graph) (map[string]bool, map[string]string) {
	entry := map[string]bool{}
	target := map[string]string{}
	for _, n := range g.Nodes {
		if len(n.In) == 0 {
			entry[n.ID] = true
		}
	}
	for _, f := range g.Flows {
		target[f.ID] = f.Dst
	}
	return entry, target
}

// Result of a run, for property-specific follow-up checks.
type Result struct {
	Inst     *drive.Inst
	Model    *refsem.State
	Steps    int
	Aborted  bool
	LastQ    quiesce.Result
	Complete bool // model says complete at the end
	// Trace: the engine's pending requests after each step (for differential runs)
	Trace []string
}

// compare checks the engine's observable state against the model at a quiescent point.
func compare(prop string, v *fw.V, in *drive.Inst, m *refsem.State, step int, action string, lenient bool) bool {
	ok := true
	cls := m.PathClass()
	exp := m.PendingList()
	got := in.PendingActs()
	if lenient && len(got) > 0 {
		// engine may lag: only "extra" is a violation while it still has work
		if d := direction(exp, got); d == "extra" || d == "wrong" {
			if !subMultiset(got, exp) {
				v.Violate("pending-extra", cls, "step %d (%s): pending requests %v are not all enabled in the reference (%v)", step, action, got, exp)
				return false
			}
		}
		gotEnds := filterRoot(in.Nodes("CompletionEnd"), m)
		if !subMultiset(gotEnds, m.RootEnds()) {
			v.Violate("ends-extra", cls, "step %d (%s): end events reached %v, reference has only %v", step, action, gotEnds, m.RootEnds())
			return false
		}
		return true
	}
	if !reflect.DeepEqual(exp, got) && !(len(exp) == 0 && len(got) == 0) {
		dir := direction(exp, got)
		v.Violate("pending-"+dir, cls, "step %d (%s): pending requests %v, reference expects %v", step, action, got, exp)
		ok = false
	}
	// total requests per activity never exceed what the model prescribes
	expEnds := m.RootEnds()
	gotEnds := in.Nodes("CompletionEnd")
	gotEnds = filterRoot(gotEnds, m)
	if !reflect.DeepEqual(expEnds, gotEnds) && !(len(expEnds) == 0 && len(gotEnds) == 0) {
		v.Violate("ends-"+direction(expEnds, gotEnds), cls, "step %d (%s): end events reached %v, reference expects %v", step, action, gotEnds, expEnds)
		ok = false
	}
	expErr := append([]string(nil), m.Errors...)
	sort.Strings(expErr)
	gotErr := in.Nodes("ErrorNoFlow")
	if !reflect.DeepEqual(expErr, gotErr) && !(len(expErr) == 0 && len(gotErr) == 0) {
		v.Violate("noflow-error-"+direction(expErr, gotErr), cls, "step %d (%s): no-effective-flow error traces for %v, reference expects %v", step, action, gotErr, expErr)
		ok = false
	}
	if other := in.Nodes("Error"); len(other) != m.CondErrs {
		if len(other) < m.CondErrs {
			v.Violate("condition-error-trace-missing", cls, "step %d (%s): %d error traces, the reference evaluated conditions that cannot be evaluated %d times", step, action, len(other), m.CondErrs)
			return false
		}
		l := in.Log(0)
		msg := ""
		for _, e := range l {
			if e.Kind == "Error" {
				msg = e.Err
				break
			}
		}
		v.Violate("unexpected-error-trace", errClass(msg), "step %d (%s): error trace %s", step, action, msg)
		ok = false
	}
	return ok
}

func subMultiset(a, b []string) bool {
	c := map[string]int{}
	for _, x := range b {
		c[x]++
	}
	for _, x := range a {
		c[x]--
		if c[x] < 0 {
			return false
		}
	}
	return true
}

func errClass(msg string) string {
	if i := strings.IndexByte(msg, ':'); i > 0 {
		return msg[:i]
	}
	return "error"
}

func filterRoot(ends []string, m *refsem.State) []string {
	var out []string
	for _, e := range ends {
		if n := m.G.Node(e); n != nil && n.Scope != "" {
			continue
		}
		out = append(out, e)
	}
	return out
}

func direction(exp, got []string) string {
	ce := map[string]int{}
	for _, e := range exp {
		ce[e]++
	}
	missing, extra := false, false
	for _, g := range got {
		ce[g]--
	}
	for _, c := range ce {
		if c > 0 {
			missing = true
		}
		if c < 0 {
			extra = true
		}
	}
	switch {
	case missing && extra:
		return "wrong"
	case missing:
		return "missing"
	default:
		return "extra"
	}
}

func checkVars(v *fw.V, in *drive.Inst, m *refsem.State) {
	got := in.Vars()
	for k, want := range m.Vars {
		g, ok := got[k]
		if !ok {
			v.Violate("vars-mismatch", "missing", "variable %s missing, reference has %d", k, want)
			continue
		}
		if gi, ok := g.(int64); !ok || gi != want {
			v.Violate("vars-mismatch", "value", "variable %s = %#v, reference has %d", k, g, want)
		}
	}
	for k := range got {
		if _, ok := m.Vars[k]; !ok {
			v.Violate("vars-mismatch", "undeclared", "variable %s stored although no task declares it", k)
		}
	}
}

func grammar(v *fw.V, in *drive.Inst, g *gen.Graph) {
	entry, target := EntryTargets(g)
	l0 := in.Log(0)
	for _, is := range mon.Grammar(l0, entry, target) {
		v.Violate("grammar-"+is.Rule, "engine", "%s", is.Msg)
	}
	if len(in.Subs) > 1 {
		if is := mon.SameOrder(l0, in.Log(1)); is != nil {
			v.Violate("grammar-"+is.Rule, "engine", "%s", is.Msg)
		}
	}
	v.Add("traces", len(l0))
}

func blockedCallers(v *fw.V, q quiesce.Result, what string) {
	for _, fn := range []string{"taskTrace).Do", "Process).ConsumeEvent", "Process).StartAll", "Process).StartWith", "tracer).Unsubscribe"} {
		if gs := quiesce.DriverIn(q.Gs, fn); len(gs) > 0 {
			v.Violate("caller-blocked", fn, "%s: %d caller(s) still inside %s at the quiescent point; blocked at %s", what, len(gs), fn, gs[0].TopRepoFrame())
		}
	}
}

// RunStepwise executes a case stepwise. The instance is left running (callers
// cancel it); the returned result carries the model and instance.
func RunStepwise(prop string, c *Case, env *fw.Env, v *fw.V) *Result {
	res := &Result{}
	defs, _, err := Parse(c.G)
	if err != nil {
		v.Inconclusive("parse", "generated XML does not parse: %v", err)
		res.Aborted = true
		return res
	}
	if c.Defs != nil {
		defs = c.Defs
	}
	if c.Hooks > 0 {
		perturb.Configure(c.Hooks, 200)
	} else {
		perturb.Off()
	}
	if c.DelaySite != "" {
		fired := perturb.Trigger(c.DelaySite, c.DelayNth, time.Duration(c.DelayUs)*time.Microsecond, func() {})
		defer func() {
			if fired() {
				v.Add("delays-fired", 1)
				v.AddSig("delay:" + c.DelaySite)
			}
			perturb.Trigger("", 0, 0, nil)
		}()
	}
	in, err := drive.New(env.Label, defs, c.opts())
	if err != nil {
		v.Violate("new-process-error", "error", "NewProcess failed: %v", err)
		res.Aborted = true
		return res
	}
	res.Inst = in
	m := refsem.New(c.G, c.Vars, c.Objs)
	res.Model = m
	var waiters []*drive.Waiter
	for i := 0; i < c.Waiters; i++ {
		waiters = append(waiters, in.Wait(context.Background()))
	}
	if err := in.Start(); err != nil {
		startErr(v, in, err)
		res.Aborted = true
		return res
	}
	m.StartAll()
	q := in.Quiesce(Watchdog)
	v.Add("qpoints", 1)
	v.Add("snapshots", q.Snapshots)
	res.LastQ = q
	if !q.Quiescent {
		v.Inconclusive("watchdog", "no quiescent point after start: %v", quiesce.Summary(q.Gs))
		res.Aborted = true
		return res
	}
	blockedCallers(v, q, "after start")
	if !compare(prop, v, in, m, 0, "start", c.Lenient) {
		res.Aborted = true
		finish(v, in, c)
		return res
	}
	occ := map[string]int{}
	order := c.Order
	for i := 0; i < 400; i++ {
		var task string
		if i < len(order) {
			task = order[i]
		} else if !c.Lenient {
			break
		}
		var req *drive.Req
		pend := in.Pending()
		for _, r := range pend {
			if r.Act == task {
				req = r
				break
			}
		}
		if req == nil && c.Lenient {
			if len(pend) == 0 {
				break
			}
			sort.Slice(pend, func(a, b int) bool { return pend[a].Act < pend[b].Act })
			req = pend[0]
			task = req.Act
		}
		if req == nil {
			v.Inconclusive("order", "order names %s but it is not pending", task)
			res.Aborted = true
			break
		}
		k := occ[task]
		occ[task]++
		val := c.Value(task, k)
		results := map[string]any{}
		mres := map[string]int64{}
		for _, w := range c.G.Node(task).Writes {
			results[w] = int(val)
			mres[w] = val
		}
		if objs := outputsOf(c.G.Node(task), val, mres); len(objs) > 0 {
			in.Answer(req, bpmn.DoWithResults(results), bpmn.DoWithObjects(objs))
		} else {
			in.Answer(req, bpmn.DoWithResults(results))
		}
		if err := m.Answer(task, mres); err != nil {
			v.Inconclusive("model", "%v", err)
			res.Aborted = true
			break
		}
		q = in.Quiesce(Watchdog)
		v.Add("qpoints", 1)
		v.Add("snapshots", q.Snapshots)
		res.LastQ = q
		res.Steps = i + 1
		if !q.Quiescent {
			v.Inconclusive("watchdog", "no quiescent point after answering %s: %v", task, quiesce.Summary(q.Gs))
			res.Aborted = true
			break
		}
		blockedCallers(v, q, "after answering "+task)
		res.Trace = append(res.Trace, fmt.Sprintf("%s=>%v", task, in.PendingActs()))
		if !compare(prop, v, in, m, i+1, "answer "+task, c.Lenient) {
			res.Aborted = true
			break
		}
		// waiters must not have returned true while tokens remain
		if !m.Complete() {
			for wi, w := range waiters {
				if ret, r, _ := in.WaiterState(w); ret && r {
					v.Violate("early-complete", m.PathClass(), "waiter %d returned true at step %d while the reference still has tokens (pending %v)", wi, i+1, m.PendingList())
				}
			}
			if n := in.Count("CeaseFlow", ""); n > 0 {
				v.Violate("early-cease", m.PathClass(), "cease-flow trace at step %d while the reference still has tokens", i+1)
			}
		}
	}
	res.Complete = m.Complete()
	if c.Lenient && !res.Aborted {
		// the engine has nothing pending any more: now it must agree with the reference
		if !compare(prop, v, in, m, res.Steps, "end of run", false) {
			res.Aborted = true
		}
	}
	if !res.Aborted {
		final(prop, v, in, m, waiters, res.LastQ)
	}
	finish(v, in, c)
	return res
}

// final checks completion, variables and cease-flow at the last quiescent point.
func final(prop string, v *fw.V, in *drive.Inst, m *refsem.State, waiters []*drive.Waiter, q quiesce.Result) {
	checkVars(v, in, m)
	cls := m.PathClass()
	n, issues := mon.Cease(in.Log(0))
	for _, is := range issues {
		v.Violate(is.Rule, cls, "%s", is.Msg)
	}
	if m.Complete() {
		if n != 1 {
			v.Violate("not-complete", cls, "reference has no token left but %d cease-flow traces were emitted; engine goroutines: %v", n, quiesce.Summary(quiesce.Engine(q.Gs)))
		}
		for wi, w := range waiters {
			if ret, r, _ := in.WaiterState(w); !ret {
				v.Violate("waiter-blocked", cls, "waiter %d still blocked at the quiescent point although no token is left", wi)
			} else if !r {
				v.Violate("waiter-false", cls, "waiter %d returned false without cancellation", wi)
			}
		}
	} else {
		if n != 0 {
			v.Violate("early-cease", cls, "cease-flow trace although the reference still has tokens: pending %v dead %v", m.PendingList(), m.Dead)
		}
		for wi, w := range waiters {
			if ret, r, _ := in.WaiterState(w); ret && r {
				v.Violate("early-complete", cls, "waiter %d returned true although the reference still has tokens", wi)
			}
		}
	}
}

func startErr(v *fw.V, in *drive.Inst, err error) {
	if err == drive.ErrStartBlocked {
		v.Violate("caller-blocked", "Process).StartAll", "StartAll still blocked at the quiescent point")
	} else {
		v.Violate("start-error", "error", "StartAll failed: %v", err)
	}
	in.Cancel()
}

func finish(v *fw.V, in *drive.Inst, c *Case) {
	grammar(v, in, c.G)
	if v.Violated() {
		v.Log = in.Tail(60)
	}
	in.Cancel()
}

// RunStorm executes a case with concurrent answers: every pending request is
// answered from its own goroutine behind a barrier, rounds repeat until the
// quiescent point has no pending request. The oracle is the final state plus
// the schedule-insensitive causal rule on joins.
func RunStorm(prop string, c *Case, env *fw.Env, v *fw.V) *Result {
	res := &Result{}
	defs, _, err := Parse(c.G)
	if err != nil {
		v.Inconclusive("parse", "generated XML does not parse: %v", err)
		res.Aborted = true
		return res
	}
	perturb.Configure(c.Hooks, 300)
	defer perturb.Off()
	if c.DelaySite != "" {
		fired := perturb.Trigger(c.DelaySite, c.DelayNth, time.Duration(c.DelayUs)*time.Microsecond, func() {})
		defer func() {
			if fired() {
				v.Add("delays-fired", 1)
				v.AddSig("delay:" + c.DelaySite)
			}
			perturb.Trigger("", 0, 0, nil)
		}()
	}
	in, err := drive.New(env.Label, defs, c.opts())
	if err != nil {
		v.Violate("new-process-error", "error", "NewProcess failed: %v", err)
		res.Aborted = true
		return res
	}
	res.Inst = in
	// model: run to completion answering in model order to learn totals
	m := refsem.New(c.G, c.Vars, c.Objs)
	res.Model = m
	m.StartAll()
	occ := map[string]int{}
	for guard := 0; guard < 10000; guard++ {
		p := m.PendingList()
		if len(p) == 0 {
			break
		}
		t := p[0]
		val := c.Value(t, occ[t])
		occ[t]++
		mres := map[string]int64{}
		for _, w := range c.G.Node(t).Writes {
			mres[w] = val
		}
		outputsOf(c.G.Node(t), val, mres)
		m.Answer(t, mres)
	}
	w := in.Wait(context.Background())
	if err := in.Start(); err != nil {
		startErr(v, in, err)
		res.Aborted = true
		return res
	}
	eocc := map[string]int{}
	var q quiesce.Result
	for round := 0; round < 10000; round++ {
		q = in.Quiesce(Watchdog)
		v.Add("qpoints", 1)
		if !q.Quiescent {
			v.Inconclusive("watchdog", "no quiescent point in storm round %d: %v", round, quiesce.Summary(q.Gs))
			res.Aborted = true
			finish(v, in, c)
			return res
		}
		pend := in.Pending()
		if len(pend) == 0 {
			break
		}
		var wg sync.WaitGroup
		barrier := make(chan struct{})
		for _, r := range pend {
			k := eocc[r.Act]
			eocc[r.Act]++
			val := c.Value(r.Act, k)
			results := map[string]any{}
			for _, wn := range c.G.Node(r.Act).Writes {
				results[wn] = int(val)
			}
			objs := outputsOf(c.G.Node(r.Act), val, nil)
			wg.Add(1)
			go func(r *drive.Req) {
				defer wg.Done()
				<-barrier
				if len(objs) > 0 {
					in.Answer(r, bpmn.DoWithResults(results), bpmn.DoWithObjects(objs))
				} else {
					in.Answer(r, bpmn.DoWithResults(results))
				}
			}(r)
		}
		if c.OnRound != nil {
			c.OnRound(in, round)
		}
		close(barrier)
		wg.Wait()
		v.Add("storm-rounds", 1)
	}
	res.LastQ = q
	blockedCallers(v, q, "storm end")
	// final-state oracle
	cls := "storm"
	expReq := map[string]int{}
	for k, n := range m.Requested {
		expReq[k] = n
	}
	gotReq := map[string]int{}
	for _, r := range in.Reqs() {
		gotReq[r.Act]++
	}
	if !reflect.DeepEqual(expReq, gotReq) {
		v.Violate("storm-requests", cls, "requests per activity %v, reference prescribes %v", gotReq, expReq)
	}
	gotEnds := filterRoot(in.Nodes("CompletionEnd"), m)
	if e := m.RootEnds(); !reflect.DeepEqual(e, gotEnds) && !(len(e) == 0 && len(gotEnds) == 0) {
		v.Violate("storm-ends", cls, "end events %v, reference %v", gotEnds, e)
	}
	if other := in.Nodes("Error"); len(other) > m.CondErrs {
		v.Violate("unexpected-error-trace", "storm", "%d error traces, the reference evaluated conditions that cannot be evaluated %d times", len(other), m.CondErrs)
	} else if len(other) < m.CondErrs {
		v.Violate("condition-error-trace-missing", "storm", "%d error traces, the reference evaluated conditions that cannot be evaluated %d times", len(other), m.CondErrs)
	}
	final(prop, v, in, m, []*drive.Waiter{w}, q)
	res.Complete = m.Complete()
	finish(v, in, c)
	return res
}

// Orders enumerates answer orders of the model: all of them if at most limit,
// otherwise `limit` PRNG-drawn distinct ones. Returns orders and whether the
// enumeration is complete.
func Orders(c *Case, limit int, rng *fw.Rng) ([][]string, bool) {
	var out [][]string
	complete := true
	var rec func(m *refsem.State, occ map[string]int, prefix []string)
	count := 0
	rec = func(m *refsem.State, occ map[string]int, prefix []string) {
		if count > limit {
			return
		}
		p := uniq(m.PendingList())
		if len(p) == 0 || len(prefix) > 200 {
			count++
			if count <= limit {
				out = append(out, append([]string(nil), prefix...))
			}
			return
		}
		for _, t := range p {
			m2 := clone(m)
			occ2 := map[string]int{}
			for k, v := range occ {
				occ2[k] = v
			}
			val := c.Value(t, occ2[t])
			occ2[t]++
			mres := map[string]int64{}
			for _, w := range c.G.Node(t).Writes {
				mres[w] = val
			}
			outputsOf(c.G.Node(t), val, mres)
			m2.Answer(t, mres)
			rec(m2, occ2, append(prefix, t))
		}
	}
	m := refsem.New(c.G, c.Vars, c.Objs)
	m.StartAll()
	rec(m, map[string]int{}, nil)
	if count <= limit {
		return out, true
	}
	// too many: draw random orders
	complete = false
	seen := map[string]bool{}
	out = nil
	for tries := 0; len(out) < limit && tries < limit*4; tries++ {
		m := refsem.New(c.G, c.Vars, c.Objs)
		m.StartAll()
		occ := map[string]int{}
		var ord []string
		for len(ord) < 300 {
			p := uniq(m.PendingList())
			if len(p) == 0 {
				break
			}
			t := p[rng.Intn(len(p))]
			val := c.Value(t, occ[t])
			occ[t]++
			mres := map[string]int64{}
			for _, w := range c.G.Node(t).Writes {
				mres[w] = val
			}
			outputsOf(c.G.Node(t), val, mres)
			m.Answer(t, mres)
			ord = append(ord, t)
		}
		k := strings.Join(ord, ",")
		if !seen[k] {
			seen[k] = true
			out = append(out, ord)
		}
	}
	return out, complete
}

func uniq(s []string) []string {
	var out []string
	for i, x := range s {
		if i == 0 || s[i-1] != x {
			out = append(out, x)
		}
	}
	return out
}

func clone(m *refsem.State) *refsem.State { return m.Clone() }

// Nontrivial implements C01's rule: >=1 gateway or conditional flow and at some
// step >=2 requests pending at once or a condition decided the route.
func Nontrivial(c *Case) bool {
	gw := false
	for _, n := range c.G.Nodes {
		switch n.Kind {
		case gen.Xor, gen.And, gen.Or:
			gw = true
		}
	}
	for _, f := range c.G.Flows {
		if f.Cond != nil {
			gw = true
		}
	}
	if !gw {
		return false
	}
	m := refsem.New(c.G, c.Vars, c.Objs)
	m.StartAll()
	occ := map[string]int{}
	for _, t := range c.Order {
		val := c.Value(t, occ[t])
		occ[t]++
		mres := map[string]int64{}
		for _, w := range c.G.Node(t).Writes {
			mres[w] = val
		}
		outputsOf(c.G.Node(t), val, mres)
		if m.Answer(t, mres) != nil {
			break
		}
	}
	return m.MaxPending >= 2 || m.CondDecided
}

var _ = fmt.Sprintf
