// Package drive runs one engine instance from labelled goroutines, records an
// append-only event log at the API boundary and exposes the quiescence oracle
// (DESIGN.md 2.3/2.4).
package drive

import (
	"context"
	"fmt"
	"os"
	"sort"
	"sync"
	"sync/atomic"
	"time"

	"github.com/olive-io/bpmn/schema"
	bpmn "github.com/olive-io/bpmn/v2"
	"github.com/olive-io/bpmn/v2/pkg/clock"
	"github.com/olive-io/bpmn/v2/pkg/event"
	"github.com/olive-io/bpmn/v2/pkg/id"
	"github.com/olive-io/bpmn/v2/pkg/timer"
	"github.com/olive-io/bpmn/v2/pkg/tracing"

	"verif/internal/quiesce"
)

// Seq is the process-wide logical clock (the only "time" oracles use).
var Seq atomic.Int64

// Ev is one entry of the event log.
type Ev struct {
	Seq   int64
	Sub   int    // subscriber index
	Kind  string // trace kind or driver action
	Node  string // node / process id
	Flow  string // flow id (NewFlow, Termination, Cancellation)
	Flows []string
	SFs   []string // sequence-flow ids of a FlowTrace
	Inst  string
	Err   string
	Req   int // request number for Task
	Raw   tracing.ITrace
}

func (e Ev) String() string {
	s := fmt.Sprintf("#%d s%d %s", e.Seq, e.Sub, e.Kind)
	if e.Node != "" {
		s += " node=" + e.Node
	}
	if e.Flow != "" {
		s += " flow=" + e.Flow
	}
	if len(e.Flows) > 0 {
		s += fmt.Sprintf(" flows=%v sfs=%v", e.Flows, e.SFs)
	}
	if e.Err != "" {
		s += " err=" + e.Err
	}
	if e.Kind == "Task" {
		s += fmt.Sprintf(" req=%d", e.Req)
	}
	return s
}

// Req is one task request received by the driver.
type Req struct {
	N        int
	Act      string
	Trace    bpmn.TaskTrace
	RecvSeq  int64
	Answered bool
	CtxErr   error // Context().Err() at receipt
}

// Opts configures an instance.
type Opts struct {
	Vars        map[string]any
	DataObjects map[string]any
	SubBuf      int
	ExtraSubs   int         // extra subscribers (for the same-order check)
	Mock        *clock.Mock // mock clock + timer event definitions
	Fan         *event.FanOut // event bus shared with other instances (only with Mock; nil = a private one)
	Ctx         context.Context
	EngineCtx   context.Context // context given to the engine (WithEngineContext); nil = the instance's own context
	OnTrace     func(in *Inst, e *Ev) // called by the consumer of subscriber 0 for each trace
	NoSubscribe bool
	IdGen       id.IGenerator
	RawOptions  []bpmn.Option // passed to NewProcess as they are (e.g. one option value shared by two instances)
}

// Inst is one driven process instance.
type Inst struct {
	Label  string
	Ctx    context.Context
	Cancel context.CancelFunc
	Defs   *schema.Definitions
	Proc   *bpmn.Process
	Subs   []chan tracing.ITrace

	mu       sync.Mutex
	logs     [][]Ev
	reqs     []*Req
	closed   []bool
	waiters  []*Waiter
	opts     Opts
	consumed atomic.Int64
}

// Waiter records one WaitUntilComplete call.
type Waiter struct {
	CallSeq   int64
	RetSeq    int64
	Returned  bool
	Result    bool
	CtxCancel context.CancelFunc
}

func idOf(n interface{ Id() (*string, bool) }) string {
	if n == nil {
		return ""
	}
	defer func() { recover() }()
	if p, ok := n.Id(); ok && p != nil {
		return *p
	}
	return ""
}

// Classify turns a trace into a log entry.
func Classify(tr tracing.ITrace) Ev {
	var e Ev
	inst := ""
	for {
		switch w := tr.(type) {
		case bpmn.InstanceTrace:
			inst = w.InstanceId.String()
			tr = w.Trace
			continue
		case bpmn.ProcessTrace:
			tr = w.Trace
			continue
		}
		break
	}
	e.Inst = inst
	e.Raw = tr
	switch t := tr.(type) {
	case bpmn.ErrorTrace:
		e.Kind = "Error"
		if t.Error != nil {
			e.Err = fmt.Sprintf("%T: %v", t.Error, t.Error)
			switch x := t.Error.(type) {
			case bpmn.ExclusiveNoEffectiveSequenceFlows:
				e.Kind = "ErrorNoFlow"
				e.Node = idOf(x.ExclusiveGateway)
			case bpmn.InclusiveNoEffectiveSequenceFlows:
				e.Kind = "ErrorNoFlow"
				e.Node = idOf(x.InclusiveGateway)
			}
		}
	case bpmn.NewFlowTrace:
		e.Kind = "NewFlow"
		e.Flow = t.FlowId.String()
	case bpmn.FlowTrace:
		e.Kind = "Flow"
		e.Node = idOf(t.Source)
		for _, s := range t.Flows {
			e.Flows = append(e.Flows, s.Id().String())
			if sf := s.SequenceFlow(); sf != nil {
				e.SFs = append(e.SFs, idOf(sf.SequenceFlow))
			} else {
				e.SFs = append(e.SFs, "")
			}
		}
	case bpmn.TerminationTrace:
		e.Kind = "Termination"
		e.Flow = t.FlowId.String()
		e.Node = idOf(t.Source)
	case bpmn.CancellationFlowTrace:
		e.Kind = "CancelFlow"
		e.Flow = t.FlowId.String()
		e.Node = idOf(t.Node)
	case bpmn.CompletionTrace:
		e.Kind = "Completion"
		e.Node = idOf(t.Node)
		if _, ok := t.Node.(*schema.EndEvent); ok {
			e.Kind = "CompletionEnd"
		}
	case bpmn.CeaseFlowTrace:
		e.Kind = "CeaseFlow"
		switch p := t.Process.(type) {
		case *schema.Process:
			e.Node = idOf(p)
		case *schema.SubProcess:
			e.Kind = "CeaseFlowSub"
			e.Node = idOf(p)
		}
	case bpmn.VisitTrace:
		e.Kind = "Visit"
		e.Node = idOf(t.Node)
	case bpmn.LeaveTrace:
		e.Kind = "Leave"
		e.Node = idOf(t.Node)
	case bpmn.CancellationFlowNodeTrace:
		e.Kind = "CancelNode"
		e.Node = idOf(t.Node)
	case bpmn.NewFlowNodeTrace:
		e.Kind = "NewNode"
		e.Node = idOf(t.Node)
	case bpmn.InstantiationTrace:
		e.Kind = "Instantiation"
		e.Inst = t.InstanceId.String()
	case bpmn.CeaseProcessSetTrace:
		e.Kind = "CeaseSet"
	case bpmn.ActiveBoundaryTrace:
		if t.Start {
			e.Kind = "ActiveStart"
		} else {
			e.Kind = "ActiveEnd"
		}
		e.Node = idOf(t.Node)
	case bpmn.IncomingFlowProcessedTrace:
		e.Kind = "IncomingProcessed"
		e.Node = idOf(t.Node)
	case bpmn.DeterminationMadeTrace:
		e.Kind = "Determination"
		e.Node = idOf(t.Node)
	case bpmn.ActiveListeningTrace:
		e.Kind = "Listening"
		e.Node = idOf(t.Node)
	case bpmn.EventObservedTrace:
		e.Kind = "EventObserved"
		e.Node = idOf(t.Node)
	case bpmn.ProcessLandMarkTrace:
		e.Kind = "LandMark"
		e.Node = idOf(t.Node)
	case bpmn.TaskTrace:
		e.Kind = "Task"
		if a := t.GetActivity(); a != nil {
			e.Node = idOf(a.Element())
		}
	case id.WarningTrace:
		e.Kind = "Warning"
		e.Err = fmt.Sprint(t.Warning)
	default:
		e.Kind = fmt.Sprintf("Other:%T", tr)
	}
	return e
}

// New creates (but does not start) an instance. Must be called from a
// goroutine carrying the case label.
func New(label string, defs *schema.Definitions, o Opts) (*Inst, error) {
	in := &Inst{Label: label, Defs: defs, opts: o}
	base := o.Ctx
	if base == nil {
		base = context.Background()
	}
	if o.Mock != nil {
		base = clock.ToContext(base, o.Mock)
	}
	in.Ctx, in.Cancel = context.WithCancel(base)
	ectx := o.EngineCtx
	if ectx == nil {
		ectx = in.Ctx
	}
	engine := bpmn.NewEngine(bpmn.WithEngineContext(ectx))
	opts := []bpmn.Option{bpmn.WithContext(in.Ctx)}
	if o.Vars != nil {
		opts = append(opts, bpmn.WithVariables(o.Vars))
	}
	if o.DataObjects != nil {
		opts = append(opts, bpmn.WithDataObjects(o.DataObjects))
	}
	if o.IdGen != nil {
		opts = append(opts, bpmn.WithIdGenerator(o.IdGen))
	}
	opts = append(opts, o.RawOptions...)
	if o.Mock != nil {
		fan := o.Fan
		if fan == nil {
			fan = event.NewFanOut()
		}
		tr := tracing.NewTracer(in.Ctx)
		b := event.DefinitionInstanceBuildingChain(
			timer.EventDefinitionInstanceBuilder(in.Ctx, fan, tr),
			event.WrappingDefinitionInstanceBuilder,
		)
		opts = append(opts, bpmn.WithTracer(tr), bpmn.WithProcessEventDefinitionInstanceBuilder(b),
			bpmn.WithEventEgress(fan), bpmn.WithEventIngress(fan))
	}
	p, err := engine.NewProcess(defs, opts...)
	if err != nil {
		in.Cancel()
		return nil, err
	}
	in.Proc = p
	if !o.NoSubscribe {
		for i := 0; i <= o.ExtraSubs; i++ {
			in.AddSubscriber()
		}
	}
	return in, nil
}

// AddSubscriber subscribes one more recorded channel.
func (in *Inst) AddSubscriber() int {
	buf := in.opts.SubBuf
	if buf == 0 {
		buf = 8192
	}
	ch := make(chan tracing.ITrace, buf)
	in.mu.Lock()
	idx := len(in.Subs)
	in.Subs = append(in.Subs, ch)
	in.logs = append(in.logs, nil)
	in.closed = append(in.closed, false)
	in.mu.Unlock()
	in.Proc.Tracer().SubscribeChannel(ch)
	go in.consume(idx, ch)
	return idx
}

func (in *Inst) consume(idx int, ch chan tracing.ITrace) {
	for tr := range ch {
		e := Classify(tr)
		e.Seq = Seq.Add(1)
		e.Sub = idx
		in.mu.Lock()
		if idx == 0 {
			if tt, ok := e.Raw.(bpmn.TaskTrace); ok {
				r := &Req{N: len(in.reqs), Act: e.Node, Trace: tt, RecvSeq: e.Seq}
				if c := tt.Context(); c != nil {
					r.CtxErr = c.Err()
				}
				e.Req = r.N
				in.reqs = append(in.reqs, r)
			}
		}
		in.logs[idx] = append(in.logs[idx], e)
		cb := in.opts.OnTrace
		in.mu.Unlock()
		if idx == 0 && cb != nil {
			cb(in, &e)
		}
		in.consumed.Add(1)
	}
	in.mu.Lock()
	in.closed[idx] = true
	in.mu.Unlock()
}

// Call is an engine call made from its own (labelled) driver goroutine, so a
// call that never returns shows up as a blocked caller at the quiescent point
// instead of hanging the driver.
type Call struct {
	mu   sync.Mutex
	done bool
	err  error
}

func (c *Call) Done() (bool, error) {
	c.mu.Lock()
	defer c.mu.Unlock()
	return c.done, c.err
}

// Go runs f in a driver goroutine and records its return.
func (in *Inst) Go(name string, f func() error) *Call {
	c := &Call{}
	in.note(name+".call", "")
	go func() {
		err := f()
		c.mu.Lock()
		c.done, c.err = true, err
		c.mu.Unlock()
		in.note(name+".return", "")
	}()
	return c
}

// StartAsync calls StartAll from a driver goroutine.
func (in *Inst) StartAsync() *Call {
	return in.Go("StartAll", func() error { return in.Proc.StartAll(in.Ctx) })
}

// Start calls StartAll and waits until it returned or the case is quiescent
// (a StartAll that is still blocked then is reported by the caller-blocked rule).
func (in *Inst) Start() error {
	c := in.StartAsync()
	for i := 0; ; i++ {
		if d, err := c.Done(); d {
			return err
		}
		if i > 50 {
			q := in.Quiesce(30 * time.Second)
			if d, err := c.Done(); d {
				return err
			}
			if q.Quiescent {
				return ErrStartBlocked
			}
		}
		time.Sleep(20 * time.Microsecond)
	}
}

// ErrStartBlocked is returned by Start when StartAll is still blocked at a quiescent point.
var ErrStartBlocked = fmt.Errorf("StartAll still blocked at the quiescent point")

func (in *Inst) note(kind, node string) {
	e := Ev{Seq: Seq.Add(1), Sub: -1, Kind: kind, Node: node}
	in.mu.Lock()
	if len(in.logs) > 0 {
		in.logs[0] = append(in.logs[0], e)
	}
	in.mu.Unlock()
}

// Note records a driver action in the log.
func (in *Inst) Note(kind, node string) { in.note(kind, node) }

// Quiesce waits for the quiescent point of the case.
func (in *Inst) Quiesce(watchdog time.Duration) quiesce.Result {
	// nothing blocks for good if an engine goroutine spins: accept the point when everything else has
	// settled and the trace stream is silent, so that the property's own comparison decides. Tried after a
	// short first wait (a spinning instance would otherwise cost the whole watchdog at every step) and
	// again when the watchdog has expired.
	extra := func() bool {
		for _, ch := range in.Subs {
			if len(ch) != 0 {
				return false
			}
		}
		return true
	}
	first := 400 * time.Millisecond
	if watchdog < first {
		first = watchdog
	}
	r := in.quiesce(first)
	for attempt := 0; !r.Quiescent && attempt < 2; attempt++ {
		if fn, gs := quiesce.SpinSettled(in.Label, extra, in.consumed.Load); fn != "" {
			r.Quiescent, r.Spinning, r.Gs = true, fn, gs
			in.note("spinning", fn)
			break
		}
		if attempt == 0 && watchdog > first {
			n := r.Snapshots
			r = in.quiesce(watchdog - first)
			r.Snapshots += n
		}
	}
	if QCheck && r.Quiescent {
		before := in.consumed.Load()
		time.Sleep(3 * time.Millisecond)
		if after := in.consumed.Load(); after != before {
			f, _ := os.OpenFile("/tmp/qcheck.log", os.O_CREATE|os.O_APPEND|os.O_WRONLY, 0o644)
			fmt.Fprintf(f, "FALSE-QUIESCENCE: %d traces arrived after the quiescent point (label %s)\n", after-before, in.Label)
			for _, g := range r.Gs {
				fmt.Fprintf(f, "  g%s [%s] labels=%s %v\n", g.ID, g.State, g.Labels, g.Frames)
			}
			snap := quiesce.Take()
			fmt.Fprintf(f, " -- all goroutines now:\n")
			for _, g := range snap.Gs {
				fmt.Fprintf(f, "  g%s [%s] labels=%s %v\n", g.ID, g.State, g.Labels, g.Frames)
			}
			f.Close()
		}
	}
	return r
}

// QCheck enables the self-check of the quiescence oracle (debugging aid).
var QCheck = os.Getenv("VERIF_QCHECK") != ""

func (in *Inst) quiesce(watchdog time.Duration) quiesce.Result {
	return quiesce.Wait(in.Label, watchdog, func() bool {
		for _, ch := range in.Subs {
			if len(ch) != 0 {
				return false
			}
		}
		return true
	})
}

// Log returns a copy of subscriber idx's log.
func (in *Inst) Log(idx int) []Ev {
	in.mu.Lock()
	defer in.mu.Unlock()
	return append([]Ev(nil), in.logs[idx]...)
}

// Reqs returns all requests so far.
func (in *Inst) Reqs() []*Req {
	in.mu.Lock()
	defer in.mu.Unlock()
	return append([]*Req(nil), in.reqs...)
}

// Pending returns unanswered requests.
func (in *Inst) Pending() []*Req {
	in.mu.Lock()
	defer in.mu.Unlock()
	var out []*Req
	for _, r := range in.reqs {
		if !r.Answered {
			out = append(out, r)
		}
	}
	return out
}

// PendingActs returns the sorted multiset of activity ids with unanswered requests.
func (in *Inst) PendingActs() []string {
	var out []string
	for _, r := range in.Pending() {
		out = append(out, r.Act)
	}
	sort.Strings(out)
	return out
}

// Answer answers request r with Do(options...).
func (in *Inst) Answer(r *Req, options ...bpmn.DoOption) {
	in.mu.Lock()
	r.Answered = true
	in.mu.Unlock()
	in.note("Do.call", fmt.Sprintf("%s#%d", r.Act, r.N))
	r.Trace.Do(options...)
	in.note("Do.return", fmt.Sprintf("%s#%d", r.Act, r.N))
}

// MarkAnswered marks a request as answered (for drivers calling Do themselves).
func (in *Inst) MarkAnswered(r *Req) {
	in.mu.Lock()
	r.Answered = true
	in.mu.Unlock()
}

// Closed reports whether subscriber idx's channel was closed by the tracer.
func (in *Inst) Closed(idx int) bool {
	in.mu.Lock()
	defer in.mu.Unlock()
	return in.closed[idx]
}

// Wait starts a goroutine calling WaitUntilComplete(ctx).
func (in *Inst) Wait(ctx context.Context) *Waiter {
	w := &Waiter{CallSeq: Seq.Add(1)}
	in.mu.Lock()
	in.waiters = append(in.waiters, w)
	in.mu.Unlock()
	go func() {
		r := in.Proc.WaitUntilComplete(ctx)
		in.mu.Lock()
		w.Result = r
		w.RetSeq = Seq.Add(1)
		w.Returned = true
		in.mu.Unlock()
	}()
	return w
}

// WaiterState reads a waiter under the lock.
func (in *Inst) WaiterState(w *Waiter) (returned, result bool, retSeq int64) {
	in.mu.Lock()
	defer in.mu.Unlock()
	return w.Returned, w.Result, w.RetSeq
}

// Count counts log entries of subscriber 0 matching kind (and node if non-empty).
func (in *Inst) Count(kind, node string) int {
	in.mu.Lock()
	defer in.mu.Unlock()
	c := 0
	for _, e := range in.logs[0] {
		if e.Kind == kind && (node == "" || e.Node == node) {
			c++
		}
	}
	return c
}

// Nodes returns sorted multiset of node ids of entries of a kind.
func (in *Inst) Nodes(kind string) []string {
	in.mu.Lock()
	defer in.mu.Unlock()
	var out []string
	for _, e := range in.logs[0] {
		if e.Kind == kind {
			out = append(out, e.Node)
		}
	}
	sort.Strings(out)
	return out
}

// Vars returns the instance variables as canonical values.
func (in *Inst) Vars() map[string]any {
	out := map[string]any{}
	for k, v := range in.Proc.Locator().CloneVariables() {
		out[k] = v.Value()
	}
	return out
}

// Tail renders the last n log entries.
func (in *Inst) Tail(n int) []string {
	l := in.Log(0)
	if len(l) > n {
		l = l[len(l)-n:]
	}
	out := make([]string, len(l))
	for i, e := range l {
		out[i] = e.String()
	}
	return out
}
