// Package refsem is the executable reference token game used as the oracle for
// observed engine behaviour (DESIGN.md 2.5). It is deliberately small: tokens
// rest at tasks (a request is expected), at converging parallel / inclusive
// gateways, at catch events and at sub-process nodes; everything else is a
// silent step performed by settle().
package refsem

import (
	"fmt"
	"sort"
	"strings"

	"verif/internal/gen"
)

type State struct {
	G    *gen.Graph
	Vars map[string]int64
	Objs map[string]int64

	Pending map[string]int            // task id -> tokens awaiting an answer
	Joins   map[string]map[string]int // gateway id -> incoming flow id -> waiting tokens
	Armed   map[string]int            // catch event id -> tokens listening
	InSub   map[string]int            // sub-process id -> parent tokens resting there
	Dead    map[string]int            // gateway id -> tokens stuck (no effective flow)
	Ends    map[string]int            // end event id -> tokens consumed there
	Errors  []string                  // gateway ids, one per expected "no effective flow" error trace
	// CondErrs counts the evaluations of conditions that cannot be evaluated (kind "fail"): one error trace each
	CondErrs int
	Started map[string]bool           // start events fired
	// Path collects the kinds of silent steps of the last action (class labels).
	Path map[string]bool
	// Requested counts total requests expected so far per task.
	Requested map[string]int
	// CondDecided is set when a condition decided a route (non-triviality).
	CondDecided bool
	MaxPending  int
}

func New(g *gen.Graph, vars map[string]int64, objs map[string]int64) *State {
	s := &State{G: g, Vars: map[string]int64{}, Objs: map[string]int64{},
		Pending: map[string]int{}, Joins: map[string]map[string]int{}, Armed: map[string]int{},
		InSub: map[string]int{}, Dead: map[string]int{}, Ends: map[string]int{},
		Started: map[string]bool{}, Path: map[string]bool{}, Requested: map[string]int{}}
	for k, v := range vars {
		s.Vars[k] = v
	}
	for k, v := range objs {
		s.Objs[k] = v
	}
	return s
}

type arrival struct {
	node string
	via  string
}

// StartAll fires every start event of the process scope.
func (s *State) StartAll() {
	for _, n := range s.G.Nodes {
		if n.Kind == gen.Start && n.Scope == "" {
			s.StartOne(n.ID)
		}
	}
}

// StartOne fires one start event.
func (s *State) StartOne(id string) {
	s.Path = map[string]bool{}
	n := s.G.Node(id)
	s.Started[id] = true
	// a start event's outgoing flows may carry conditions like those of any other node without a default flow
	var work []arrival
	s.emitCond(n, &work)
	s.settle(work)
}

// emitAll puts a token on every outgoing flow whose condition holds.
// countFails: every conditional outgoing flow (other than the default flow) is evaluated once per token
func (s *State) countFails(n *gen.Node) {
	for _, fid := range n.Out {
		if fid == n.Default {
			continue
		}
		if c := s.G.Flow(fid).Cond; c != nil && c.Kind == "fail" {
			if c.Lang == "xpath" || (c.Lang == "" && s.G.Lang == "xpath") {
				continue // XPath: a path selecting nothing is simply false
			}
			s.CondErrs++
		}
	}
}

func (s *State) emitCond(n *gen.Node, work *[]arrival) int {
	s.countFails(n)
	taken := 0
	for _, fid := range n.Out {
		f := s.G.Flow(fid)
		ok, _ := f.Cond.Eval(s.Vars, s.Objs)
		if f.Cond != nil {
			s.CondDecided = true
		}
		if ok {
			*work = append(*work, arrival{f.Dst, fid})
			taken++
		}
	}
	return taken
}

func (s *State) settle(work []arrival) {
	for {
		for len(work) > 0 {
			a := work[0]
			work = work[1:]
			n := s.G.Node(a.node)
			switch n.Kind {
			case gen.Task:
				s.Pending[n.ID]++
				s.Requested[n.ID]++
			case gen.End:
				s.Ends[n.ID]++
			case gen.Xor:
				s.Path["xor"] = true
				s.routeXor(n, &work)
			case gen.And:
				if len(n.In) <= 1 {
					s.Path["and-fork"] = true
					for _, fid := range n.Out {
						work = append(work, arrival{s.G.Flow(fid).Dst, fid})
					}
					break
				}
				s.addJoin(n.ID, a.via)
				ready := true
				for _, in := range n.In {
					if s.Joins[n.ID][in] == 0 {
						ready = false
					}
				}
				if ready {
					s.Path["and-join"] = true
					for _, in := range n.In {
						s.Joins[n.ID][in]--
					}
					for _, fid := range n.Out {
						work = append(work, arrival{s.G.Flow(fid).Dst, fid})
					}
				}
			case gen.Or:
				if len(n.In) <= 1 {
					s.Path["or-fork"] = true
					s.forkOr(n, &work)
					break
				}
				s.addJoin(n.ID, a.via)
			case gen.Sub:
				s.Path["sub-enter"] = true
				s.InSub[n.ID]++
				started := false
				for _, m := range s.G.Nodes {
					if m.Scope == n.ID && m.Kind == gen.Start {
						started = true
						for _, fid := range m.Out {
							work = append(work, arrival{s.G.Flow(fid).Dst, fid})
						}
					}
				}
				_ = started
			case gen.Catch:
				s.Armed[n.ID]++
			case gen.Throw:
				for _, fid := range n.Out {
					work = append(work, arrival{s.G.Flow(fid).Dst, fid})
				}
			default:
				panic("refsem: unsupported node kind " + string(n.Kind))
			}
		}
		// inclusive joins: evaluated at the fixpoint
		fired := false
		for _, n := range s.G.Nodes {
			if n.Kind != gen.Or || len(n.In) <= 1 {
				continue
			}
			if s.orJoinReady(n) {
				s.Path["or-join"] = true
				for _, in := range n.In {
					if s.Joins[n.ID][in] > 0 {
						s.Joins[n.ID][in]--
					}
				}
				s.forkOr(n, &work)
				fired = true
				break
			}
		}
		// sub-process exits: no inner token left
		if !fired {
			for _, n := range s.G.Nodes {
				if n.Kind == gen.Sub && s.InSub[n.ID] > 0 && s.live(n.ID) == 0 {
					s.exitSub(n, &work)
					fired = true
					break
				}
			}
		}
		if !fired && len(work) == 0 {
			break
		}
	}
	p := 0
	for _, c := range s.Pending {
		p += c
	}
	if p > s.MaxPending {
		s.MaxPending = p
	}
}

func (s *State) addJoin(id, via string) {
	if s.Joins[id] == nil {
		s.Joins[id] = map[string]int{}
	}
	s.Joins[id][via]++
}

func (s *State) routeXor(n *gen.Node, work *[]arrival) {
	s.countFails(n)
	for _, fid := range n.Out {
		if fid == n.Default {
			continue
		}
		f := s.G.Flow(fid)
		if f.Cond != nil {
			s.CondDecided = true
		}
		if ok, _ := f.Cond.Eval(s.Vars, s.Objs); ok {
			*work = append(*work, arrival{f.Dst, fid})
			return
		}
	}
	if n.Default != "" {
		*work = append(*work, arrival{s.G.Flow(n.Default).Dst, n.Default})
		return
	}
	s.Path["xor-none"] = true
	s.Dead[n.ID]++
	s.Errors = append(s.Errors, n.ID)
}

func (s *State) forkOr(n *gen.Node, work *[]arrival) {
	s.countFails(n)
	taken := 0
	for _, fid := range n.Out {
		if fid == n.Default {
			continue
		}
		f := s.G.Flow(fid)
		if f.Cond != nil {
			s.CondDecided = true
		}
		if ok, _ := f.Cond.Eval(s.Vars, s.Objs); ok {
			*work = append(*work, arrival{f.Dst, fid})
			taken++
		}
	}
	if taken > 0 {
		return
	}
	if n.Default != "" {
		*work = append(*work, arrival{s.G.Flow(n.Default).Dst, n.Default})
		return
	}
	s.Path["or-none"] = true
	s.Dead[n.ID]++
	s.Errors = append(s.Errors, n.ID)
}

func (s *State) exitSub(n *gen.Node, work *[]arrival) {
	s.Path["sub-exit"] = true
	s.InSub[n.ID]--
	s.emitCond(n, work)
}

// live counts tokens resting in a scope (including pending arrivals is the
// caller's business: consumed() is only called when the work list item has been
// taken off, so we also scan nothing else).
func (s *State) live(scope string) int {
	c := 0
	for id, k := range s.Pending {
		if s.G.Node(id).Scope == scope {
			c += k
		}
	}
	for id, m := range s.Joins {
		if s.G.Node(id).Scope == scope {
			for _, k := range m {
				c += k
			}
		}
	}
	for id, k := range s.Armed {
		if s.G.Node(id).Scope == scope {
			c += k
		}
	}
	for id, k := range s.InSub {
		if s.G.Node(id).Scope == scope {
			c += k
		}
	}
	for id, k := range s.Dead {
		if s.G.Node(id).Scope == scope {
			c += k
		}
	}
	return c
}

// orJoinReady: at least one token waits and no token elsewhere in the scope
// can still reach an empty incoming flow of the join.
func (s *State) orJoinReady(n *gen.Node) bool {
	waiting := 0
	var empty []string
	for _, in := range n.In {
		if s.Joins[n.ID][in] > 0 {
			waiting++
		} else {
			empty = append(empty, in)
		}
	}
	if waiting == 0 {
		return false
	}
	if len(empty) == 0 {
		return true
	}
	// token positions in this scope
	var pos []string
	for id, k := range s.Pending {
		if k > 0 {
			pos = append(pos, id)
		}
	}
	for id, k := range s.Armed {
		if k > 0 {
			pos = append(pos, id)
		}
	}
	for id, k := range s.InSub {
		if k > 0 {
			pos = append(pos, id)
		}
	}
	for id, m := range s.Joins {
		if id == n.ID {
			continue
		}
		for _, k := range m {
			if k > 0 {
				pos = append(pos, id)
				break
			}
		}
	}
	for _, p := range pos {
		if s.G.Node(p).Scope != n.Scope {
			continue
		}
		if s.reaches(p, n.ID, empty) {
			return false
		}
	}
	return true
}

// reaches: can a token at node `from` reach one of the flows in `targets`
// (incoming flows of join) without passing through join.
func (s *State) reaches(from, join string, targets []string) bool {
	tset := map[string]bool{}
	for _, t := range targets {
		tset[t] = true
	}
	seen := map[string]bool{from: true}
	stack := []string{from}
	for len(stack) > 0 {
		id := stack[len(stack)-1]
		stack = stack[:len(stack)-1]
		for _, fid := range s.G.Node(id).Out {
			if tset[fid] {
				return true
			}
			d := s.G.Flow(fid).Dst
			if d == join || seen[d] {
				continue
			}
			seen[d] = true
			stack = append(stack, d)
		}
	}
	return false
}

// Answer applies a successful task answer: stores declared results, then moves
// the token over the task's outgoing flows.
func (s *State) Answer(task string, results map[string]int64) error {
	s.Path = map[string]bool{}
	if s.Pending[task] == 0 {
		return fmt.Errorf("refsem: no pending token at %s", task)
	}
	s.Pending[task]--
	if s.Pending[task] == 0 {
		delete(s.Pending, task)
	}
	n := s.G.Node(task)
	for _, w := range n.Writes {
		if v, ok := results[w]; ok {
			s.Vars[w] = v
		}
	}
	for _, o := range n.Outputs {
		name, _, _ := strings.Cut(o, "=")
		if v, ok := results[name]; ok {
			s.Objs[name] = v
		}
	}
	var work []arrival
	conditional := false
	for _, fid := range n.Out {
		if s.G.Flow(fid).Cond != nil {
			conditional = true
		}
	}
	if conditional {
		s.Path["cond-task"] = true
	}
	if s.emitCond(n, &work) == 0 {
		s.Path["task-noflow"] = true
	}
	s.settle(work)
	return nil
}

// Deliver an event to an armed catch event: every listening token continues.
func (s *State) Fire(catch string) {
	s.Path = map[string]bool{"catch": true}
	k := s.Armed[catch]
	delete(s.Armed, catch)
	n := s.G.Node(catch)
	var work []arrival
	for i := 0; i < k; i++ {
		for _, fid := range n.Out {
			work = append(work, arrival{s.G.Flow(fid).Dst, fid})
		}
	}
	s.settle(work)
}

// Complete: all start events fired and no token left in the process scope.
func (s *State) Complete() bool {
	for _, n := range s.G.Nodes {
		if n.Kind == gen.Start && n.Scope == "" && !s.Started[n.ID] {
			return false
		}
	}
	return s.live("") == 0
}

// NoToken reports whether no token is left (regardless of start events).
func (s *State) NoToken() bool { return s.live("") == 0 }

// PendingList returns the sorted multiset of pending task ids.
func (s *State) PendingList() []string {
	var out []string
	for id, k := range s.Pending {
		for i := 0; i < k; i++ {
			out = append(out, id)
		}
	}
	sort.Strings(out)
	return out
}

// RootEnds returns sorted multiset of process-scope end events reached.
func (s *State) RootEnds() []string {
	var out []string
	for id, k := range s.Ends {
		if s.G.Node(id).Scope != "" {
			continue
		}
		for i := 0; i < k; i++ {
			out = append(out, id)
		}
	}
	sort.Strings(out)
	return out
}

// PathClass renders the silent-step kinds of the last action.
func (s *State) PathClass() string {
	var ks []string
	for k := range s.Path {
		ks = append(ks, k)
	}
	sort.Strings(ks)
	if len(ks) == 0 {
		return "plain"
	}
	return strings.Join(ks, "+")
}

func cpInt(m map[string]int) map[string]int {
	o := make(map[string]int, len(m))
	for k, v := range m {
		o[k] = v
	}
	return o
}

// Clone returns a deep copy of the state.
func (s *State) Clone() *State {
	n := New(s.G, s.Vars, s.Objs)
	n.Pending = cpInt(s.Pending)
	n.Armed = cpInt(s.Armed)
	n.InSub = cpInt(s.InSub)
	n.Dead = cpInt(s.Dead)
	n.Ends = cpInt(s.Ends)
	n.Requested = cpInt(s.Requested)
	for k, m := range s.Joins {
		n.Joins[k] = cpInt(m)
	}
	n.Errors = append([]string(nil), s.Errors...)
	for k, v := range s.Started {
		n.Started[k] = v
	}
	n.CondDecided = s.CondDecided
	n.MaxPending = s.MaxPending
	n.CondErrs = s.CondErrs
	return n
}
