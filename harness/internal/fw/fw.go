// Package fw holds the types shared by the worker and the orchestrator: case
// descriptors, verdicts, the per-property registry, the PRNG and the journal.
package fw

import (
	"context"
	"crypto/sha1"
	"encoding/hex"
	"encoding/json"
	"fmt"
	"runtime/pprof"
	"sort"
	"sync"
)

// Status of a case.
const (
	OK           = "ok"
	Violation    = "violation"
	Inconclusive = "inconclusive"
)

// Case is one unit of work: a JSON-serialisable descriptor plus bookkeeping.
type Case struct {
	Idx  int             `json:"idx"`
	Kind string          `json:"kind"` // sub-workload within the property
	Desc json.RawMessage `json:"desc"`
}

// Finding is one violation (or inconclusive observation) inside a case.
type Finding struct {
	Status string `json:"status"` // Violation or Inconclusive
	Rule   string `json:"rule"`   // oracle rule id
	Class  string `json:"class"`  // structural class of the failing scenario
	Msg    string `json:"msg"`
}

// Verdict is what running a case produced.
type Verdict struct {
	Idx        int            `json:"idx"`
	Kind       string         `json:"kind"`
	Status     string         `json:"status"`
	Findings   []Finding      `json:"findings,omitempty"`
	Nontrivial bool           `json:"nontrivial"`
	Hash       string         `json:"hash"`            // descriptor hash (distinctness)
	Stats      map[string]int `json:"stats,omitempty"` // measured counters
	Sigs       []string       `json:"sigs,omitempty"`  // distinct signatures observed (orders, schedules…)
	Observed   any            `json:"observed,omitempty"`
	Log        []string       `json:"log,omitempty"` // event log excerpt (on violation)
}

// Sig returns the known-finding signature of a finding.
func (f Finding) Sig(prop string) string { return prop + "|" + f.Rule + "|" + f.Class }

// V is a helper to build verdicts.
type V struct {
	mu sync.Mutex
	Verdict
}

func NewV(c Case) *V {
	v := &V{}
	v.Idx = c.Idx
	v.Kind = c.Kind
	v.Status = OK
	v.Stats = map[string]int{}
	v.Hash = HashBytes(append([]byte(c.Kind+"|"), c.Desc...))
	return v
}

func (v *V) Violate(rule, class, format string, a ...any) {
	v.mu.Lock()
	defer v.mu.Unlock()
	v.Status = Violation
	v.Findings = append(v.Findings, Finding{Status: Violation, Rule: rule, Class: class, Msg: fmt.Sprintf(format, a...)})
}

func (v *V) Inconclusive(rule, format string, a ...any) {
	v.mu.Lock()
	defer v.mu.Unlock()
	if v.Status == OK {
		v.Status = Inconclusive
	}
	v.Findings = append(v.Findings, Finding{Status: Inconclusive, Rule: rule, Msg: fmt.Sprintf(format, a...)})
}

func (v *V) Add(stat string, n int) {
	v.mu.Lock()
	v.Stats[stat] += n
	v.mu.Unlock()
}

func (v *V) Violated() bool {
	v.mu.Lock()
	defer v.mu.Unlock()
	return v.Status == Violation
}

func (v *V) AddSig(s string) {
	v.mu.Lock()
	v.Sigs = append(v.Sigs, s)
	v.mu.Unlock()
}

// Env is what a case runner gets from the worker.
type Env struct {
	Tier  string
	Seed  uint64
	Race  bool
	Label string // pprof label value of this case ("vcase")
}

// Prop is a registered property check.
type Prop struct {
	ID string
	// Cases builds the deterministic case list for (tier, seed).
	Cases func(tier string, seed uint64) []Case
	// Run executes one case. It is called from a goroutine labelled vcase=<env.Label>.
	Run func(c Case, env *Env) *V
	// OnePerProcess: the worker exits after each case (leaks cannot pollute the next).
	OnePerProcess bool
	// Race: build and run the worker with -race; verdict includes race reports.
	Race bool
	// Level / rule text for the evidence file.
	Rule       string
	Exhaustive func(tier string) bool
	// MinNontrivial: check is broken ("observed nothing") below this many nontrivial cases.
	MinNontrivial int
	// WatchdogSec per case (default 60).
	WatchdogSec int
	// Assumptions listed in the evidence.
	Assumptions []string
	// MaxShards limits parallel workers (0 = 16).
	MaxShards int
	// Batch: cases per worker process (0 = 6).
	Batch int
}

var registry = map[string]*Prop{}

func Register(p *Prop) { registry[p.ID] = p }

func Lookup(id string) *Prop { return registry[id] }

func IDs() []string {
	var ids []string
	for k := range registry {
		ids = append(ids, k)
	}
	sort.Strings(ids)
	return ids
}

// MkCase marshals a descriptor into a Case.
func MkCase(kind string, desc any) Case {
	b, err := json.Marshal(desc)
	if err != nil {
		panic(err)
	}
	return Case{Kind: kind, Desc: b}
}

// Number assigns indices.
func Number(cs []Case) []Case {
	for i := range cs {
		cs[i].Idx = i
	}
	return cs
}

func HashBytes(b []byte) string {
	h := sha1.Sum(b)
	return hex.EncodeToString(h[:8])
}

func HashStrings(ss []string) string {
	h := sha1.New()
	for _, s := range ss {
		h.Write([]byte(s))
		h.Write([]byte{0})
	}
	return hex.EncodeToString(h.Sum(nil)[:8])
}

// Rng is splitmix64: tiny, deterministic, seedable per property/case.
type Rng struct{ s uint64 }

func NewRng(seed uint64, salt string) *Rng {
	r := &Rng{s: seed*0x9E3779B97F4A7C15 + 0x1234567}
	for _, c := range []byte(salt) {
		r.s = (r.s ^ uint64(c)) * 0x100000001B3
	}
	r.Next()
	return r
}

func (r *Rng) Next() uint64 {
	r.s += 0x9E3779B97F4A7C15
	z := r.s
	z = (z ^ (z >> 30)) * 0xBF58476D1CE4E5B9
	z = (z ^ (z >> 27)) * 0x94D049BB133111EB
	return z ^ (z >> 31)
}

func (r *Rng) Intn(n int) int {
	if n <= 0 {
		return 0
	}
	return int(r.Next() % uint64(n))
}

func (r *Rng) Bool() bool { return r.Next()&1 == 1 }

func (r *Rng) Float() float64 { return float64(r.Next()>>11) / float64(1<<53) }

func (r *Rng) Perm(n int) []int {
	p := make([]int, n)
	for i := range p {
		p[i] = i
	}
	for i := n - 1; i > 0; i-- {
		j := r.Intn(i + 1)
		p[i], p[j] = p[j], p[i]
	}
	return p
}

func (r *Rng) Shuffle(n int, swap func(i, j int)) {
	for i := n - 1; i > 0; i-- {
		j := r.Intn(i + 1)
		swap(i, j)
	}
}

// Permutations enumerates all permutations of 0..n-1 (n small).
func Permutations(n int) [][]int {
	var out [][]int
	p := make([]int, n)
	for i := range p {
		p[i] = i
	}
	var rec func(k int)
	rec = func(k int) {
		if k == n {
			out = append(out, append([]int(nil), p...))
			return
		}
		for i := k; i < n; i++ {
			p[k], p[i] = p[i], p[k]
			rec(k + 1)
			p[k], p[i] = p[i], p[k]
		}
	}
	rec(0)
	return out
}

// Rep runs f under its own goroutine label (env.Label + "-r<i>"): goroutines a
// cancelled earlier repetition left behind must not count in the census of the
// next one.
func Rep(env *Env, i int, f func(env *Env)) {
	e2 := *env
	e2.Label = fmt.Sprintf("%s-r%d", env.Label, i)
	pprof.Do(context.Background(), pprof.Labels("vcase", e2.Label), func(context.Context) { f(&e2) })
}
