// Package gen builds BPMN process graphs (directly or from a block-structured
// AST), and renders them as BPMN XML text that goes through schema.Parse — the
// real input path of the engine.
package gen

import (
	"fmt"
	"sort"
	"strings"
)

// Kind of a flow node.
type Kind string

const (
	Start    Kind = "start"
	End      Kind = "end"
	Task     Kind = "task"
	Xor      Kind = "xor"
	And      Kind = "and"
	Or       Kind = "or"
	Sub      Kind = "sub"
	Catch    Kind = "catch"    // intermediate catch event
	Throw    Kind = "throw"    // intermediate throw event
	EventGw  Kind = "eventgw"  // event-based gateway
	Boundary Kind = "boundary" // boundary event (attached to Host)
)

// Cond is a condition on a sequence flow.
type Cond struct {
	// Kind: "var" (Var Op Val over process variables), "obj" (data object lookup
	// getDataObject('Var') Op Val... only truthiness used), "const" (literal true/false),
	// "informal" (non-formal expression: always true in the engine).
	Kind string `json:"kind"`
	Var  string `json:"var,omitempty"`
	Op   string `json:"op,omitempty"` // ">", "==", "<", ">=", "<=", "!="
	Val  int64  `json:"val,omitempty"`
	Lit  bool   `json:"lit,omitempty"`
	// Lang: "" = definitions default (expr), "xpath" = XPath on this flow.
	Lang string `json:"lang,omitempty"`
	// And: optional second conjunct.
	And *Cond `json:"and,omitempty"`
	// Text: Kind "text" = this expression text as it is (expr language)
	Text string `json:"text,omitempty"`
}

// EventDef describes an event definition on a catch/throw/start/boundary event.
type EventDef struct {
	Type string `json:"type"` // "signal", "message", "timer"
	Ref  string `json:"ref,omitempty"`
	Op   string `json:"op,omitempty"`   // message operationRef
	Time string `json:"time,omitempty"` // timer: "date:…", "duration:…", "cycle:…"
}

type Node struct {
	ID      string     `json:"id"`
	Kind    Kind       `json:"kind"`
	Tag     string     `json:"tag,omitempty"` // XML element for tasks: task, serviceTask, userTask…
	In      []string   `json:"in,omitempty"`
	Out     []string   `json:"out,omitempty"`
	Default string     `json:"default,omitempty"`
	Writes  []string   `json:"writes,omitempty"`  // declared result names (olive:results)
	Outputs []string   `json:"outputs,omitempty"` // declared data outputs (olive:dataOutput name)
	Inputs  []string   `json:"inputs,omitempty"`  // declared data inputs (olive:dataInput name=targetRef)
	Scope   string     `json:"scope,omitempty"`   // id of the enclosing sub-process ("" = process)
	Events  []EventDef `json:"events,omitempty"`
	Par     bool       `json:"par,omitempty"`  // parallelMultiple
	Host    string     `json:"host,omitempty"` // boundary: attachedToRef
	Intr    bool       `json:"intr,omitempty"` // boundary: cancelActivity
	Retries int        `json:"retries,omitempty"`
	Props   []PropItem `json:"props,omitempty"`   // olive:properties
	Headers []PropItem `json:"headers,omitempty"` // olive:taskHeaders
	Ext     []string   `json:"ext,omitempty"`     // further children of the extension elements, verbatim
}

// PropItem is an olive property/header declaration.
type PropItem struct {
	Name  string `json:"name"`
	Value string `json:"value,omitempty"`
	Type  string `json:"type,omitempty"`
	Ref   string `json:"ref,omitempty"`
}

type Flow struct {
	ID    string `json:"id"`
	Src   string `json:"src"`
	Dst   string `json:"dst"`
	Cond  *Cond  `json:"cond,omitempty"`
	Scope string `json:"scope,omitempty"`
}

// DataObject declared in the process.
type DataObject struct {
	ID   string `json:"id"`
	Name string `json:"name"`
	Body string `json:"body,omitempty"` // JSON
	Prop bool   `json:"prop,omitempty"` // a bpmn:property of the process instead of a data object
	RefOf string `json:"ref_of,omitempty"` // a bpmn:dataObjectReference to the data object with this id instead of a data object
}

// Graph is a whole process (sub-process contents are flattened in with Scope set).
type Graph struct {
	ProcID  string       `json:"proc"`
	Nodes   []*Node      `json:"nodes"`
	Flows   []*Flow      `json:"flows"`
	Objects []DataObject `json:"objects,omitempty"`
	Lang    string       `json:"lang,omitempty"` // definitions expressionLanguage: "" => expr
	// FlowsReversed: the sequenceFlow elements are written in reverse order of creation, so that the document
	// order of the flows differs from the order in which the nodes list them as incoming / outgoing
	FlowsReversed bool `json:"flows_reversed,omitempty"`
	nidx    map[string]*Node
	fidx    map[string]*Flow
	n       int
	kn      map[Kind]int
}

func NewGraph(proc string) *Graph {
	return &Graph{ProcID: proc}
}

func (g *Graph) index() {
	if g.nidx != nil && len(g.nidx) == len(g.Nodes) && len(g.fidx) == len(g.Flows) {
		return
	}
	g.nidx = map[string]*Node{}
	g.fidx = map[string]*Flow{}
	for _, n := range g.Nodes {
		g.nidx[n.ID] = n
	}
	for _, f := range g.Flows {
		g.fidx[f.ID] = f
	}
}

func (g *Graph) Node(id string) *Node { g.index(); return g.nidx[id] }
func (g *Graph) Flow(id string) *Flow { g.index(); return g.fidx[id] }

// Add adds a node; id "" generates one.
func (g *Graph) Add(kind Kind, id, scope string) *Node {
	if id == "" {
		// per-kind counters: wrapping a block into sub-processes must not rename the tasks
		if g.kn == nil {
			g.kn = map[Kind]int{}
		}
		g.kn[kind]++
		id = fmt.Sprintf("%s%d", shortKind(kind), g.kn[kind])
	}
	n := &Node{ID: id, Kind: kind, Scope: scope}
	g.Nodes = append(g.Nodes, n)
	g.nidx = nil
	return n
}

func shortKind(k Kind) string {
	switch k {
	case Task:
		return "t"
	case Start:
		return "s"
	case End:
		return "e"
	case Xor:
		return "x"
	case And:
		return "a"
	case Or:
		return "o"
	case Sub:
		return "sp"
	case Catch:
		return "c"
	}
	return string(k)
}

// Connect adds a sequence flow src→dst (same scope as src).
func (g *Graph) Connect(src, dst *Node, cond *Cond) *Flow {
	g.n++
	f := &Flow{ID: fmt.Sprintf("f%d", g.n), Src: src.ID, Dst: dst.ID, Cond: cond, Scope: dst.Scope}
	if src.Kind == Boundary {
		f.Scope = dst.Scope
	}
	g.Flows = append(g.Flows, f)
	src.Out = append(src.Out, f.ID)
	dst.In = append(dst.In, f.ID)
	g.fidx = nil
	return f
}

// ---------------------------------------------------------------------------
// XML rendering

func condExpr(c *Cond, lang string) string {
	var s string
	xp := c.Lang == "xpath" || (c.Lang == "" && lang == "xpath")
	switch c.Kind {
	case "const":
		if xp {
			if c.Lit {
				s = "true()"
			} else {
				s = "false()"
			}
		} else {
			s = fmt.Sprintf("%v", c.Lit)
		}
	case "var":
		op := c.Op
		if xp {
			if op == "==" {
				op = "="
			}
			s = fmt.Sprintf("//%s %s %d", c.Var, xmlEscape(op), c.Val)
			return s + andPart(c, lang, xp)
		}
		s = fmt.Sprintf("%s %s %d", c.Var, op, c.Val)
	case "obj":
		// data object body field lookup: getDataObject('name').field op val
		s = fmt.Sprintf("getDataObject('%s').v %s %d", c.Var, c.Op, c.Val)
	case "informal":
		s = "whatever the analyst wrote"
	case "text":
		s = c.Text
	case "fail":
		// cannot be evaluated (the variable does not exist): an error trace, the alternative counts as not true
		// (XPath: a path that selects nothing compares false without an error)
		if xp {
			return xmlEscape("//nosuchvariable > 5")
		}
		return xmlEscape("nosuchvariable > 5")
	}
	return xmlEscape(s) + andPart(c, lang, xp)
}

func andPart(c *Cond, lang string, xp bool) string {
	if c.And == nil {
		return ""
	}
	if xp {
		return " and " + condExpr(c.And, lang)
	}
	return " &amp;&amp; " + condExpr(c.And, lang)
}

func xmlEscape(s string) string {
	s = strings.ReplaceAll(s, "&", "&amp;")
	s = strings.ReplaceAll(s, "<", "&lt;")
	s = strings.ReplaceAll(s, ">", "&gt;")
	s = strings.ReplaceAll(s, "\"", "&quot;")
	return s
}

const (
	ExprLang  = "https://github.com/expr-lang/expr"
	XPathLang = "http://www.w3.org/1999/XPath"
)

func taskTag(n *Node) string {
	if n.Tag != "" {
		return n.Tag
	}
	return "serviceTask"
}

// XML renders definitions containing the graphs as processes. The first graph
// is executable; Exec overrides per process when given.
func XML(graphs []*Graph, exec []bool, extra string) string {
	var b strings.Builder
	lang := ExprLang
	if len(graphs) > 0 && graphs[0].Lang == "xpath" {
		lang = XPathLang
	}
	fmt.Fprintf(&b, `<?xml version="1.0" encoding="UTF-8"?>
<bpmn:definitions xmlns:bpmn="http://www.omg.org/spec/BPMN/20100524/MODEL" xmlns:xsi="http://www.w3.org/2001/XMLSchema-instance" xmlns:olive="http://olive.io/spec/BPMN/MODEL" id="Definitions_v" targetNamespace="http://bpmn.io/schema/bpmn" expressionLanguage="%s">
`, lang)
	if extra != "" {
		b.WriteString(extra)
	}
	for i, g := range graphs {
		ex := i == 0
		if exec != nil {
			ex = exec[i]
		}
		fmt.Fprintf(&b, `  <bpmn:process id="%s" isExecutable="%v">`+"\n", g.ProcID, ex)
		g.renderScope(&b, "", "    ")
		for _, o := range g.Objects {
			if o.Prop {
				fmt.Fprintf(&b, `    <bpmn:property id="%s" name="%s"/>`+"\n", o.ID, o.Name)
				continue
			}
			if o.RefOf != "" {
				fmt.Fprintf(&b, `    <bpmn:dataObjectReference id="%s" name="%s" dataObjectRef="%s"/>`+"\n", o.ID, o.Name, o.RefOf)
				continue
			}
			if o.Body != "" {
				fmt.Fprintf(&b, `    <bpmn:dataObject id="%s" name="%s"><bpmn:extensionElements><olive:dataObjectBody><![CDATA[%s]]></olive:dataObjectBody></bpmn:extensionElements></bpmn:dataObject>`+"\n", o.ID, o.Name, o.Body)
			} else {
				fmt.Fprintf(&b, `    <bpmn:dataObject id="%s" name="%s"/>`+"\n", o.ID, o.Name)
			}
		}
		b.WriteString("  </bpmn:process>\n")
	}
	b.WriteString("</bpmn:definitions>\n")
	return b.String()
}

func (g *Graph) renderScope(b *strings.Builder, scope, ind string) {
	lang := g.Lang
	for _, n := range g.Nodes {
		if n.Scope != scope {
			continue
		}
		io := func() {
			for _, f := range n.In {
				fmt.Fprintf(b, "%s  <bpmn:incoming>%s</bpmn:incoming>\n", ind, f)
			}
			for _, f := range n.Out {
				fmt.Fprintf(b, "%s  <bpmn:outgoing>%s</bpmn:outgoing>\n", ind, f)
			}
		}
		evdefs := func() {
			for i, e := range n.Events {
				switch e.Type {
				case "signal":
					fmt.Fprintf(b, `%s  <bpmn:signalEventDefinition id="%s_d%d" signalRef="%s"/>`+"\n", ind, n.ID, i, e.Ref)
				case "message":
					if e.Op != "" {
						fmt.Fprintf(b, `%s  <bpmn:messageEventDefinition id="%s_d%d" messageRef="%s"><bpmn:operationRef>%s</bpmn:operationRef></bpmn:messageEventDefinition>`+"\n", ind, n.ID, i, e.Ref, e.Op)
					} else {
						fmt.Fprintf(b, `%s  <bpmn:messageEventDefinition id="%s_d%d" messageRef="%s"/>`+"\n", ind, n.ID, i, e.Ref)
					}
				case "timer":
					kind, val, _ := strings.Cut(e.Time, ":")
					tag := map[string]string{"date": "timeDate", "duration": "timeDuration", "cycle": "timeCycle"}[kind]
					fmt.Fprintf(b, `%s  <bpmn:timerEventDefinition id="%s_d%d"><bpmn:%s xsi:type="bpmn:tFormalExpression">%s</bpmn:%s></bpmn:timerEventDefinition>`+"\n", ind, n.ID, i, tag, val, tag)
				}
			}
		}
		switch n.Kind {
		case Start:
			fmt.Fprintf(b, `%s<bpmn:startEvent id="%s"%s>`+"\n", ind, n.ID, parAttr(n))
			io()
			evdefs()
			fmt.Fprintf(b, "%s</bpmn:startEvent>\n", ind)
		case End:
			fmt.Fprintf(b, `%s<bpmn:endEvent id="%s">`+"\n", ind, n.ID)
			io()
			fmt.Fprintf(b, "%s</bpmn:endEvent>\n", ind)
		case Task:
			tag := taskTag(n)
			fmt.Fprintf(b, `%s<bpmn:%s id="%s" name="%s">`+"\n", ind, tag, n.ID, n.ID)
			if len(n.Writes) > 0 || len(n.Outputs) > 0 || len(n.Inputs) > 0 || n.Retries != 0 || len(n.Props) > 0 || len(n.Headers) > 0 || len(n.Ext) > 0 {
				fmt.Fprintf(b, "%s  <bpmn:extensionElements>\n", ind)
				if n.Retries != 0 {
					fmt.Fprintf(b, `%s    <olive:taskDefinition type="service" retries="%d"/>`+"\n", ind, n.Retries)
				}
				if len(n.Headers) > 0 {
					fmt.Fprintf(b, "%s    <olive:taskHeaders>\n", ind)
					for _, p := range n.Headers {
						fmt.Fprintf(b, `%s      <olive:header name="%s"%s/>`+"\n", ind, xmlEscape(p.Name), itemAttrs(p))
					}
					fmt.Fprintf(b, "%s    </olive:taskHeaders>\n", ind)
				}
				if len(n.Props) > 0 {
					fmt.Fprintf(b, "%s    <olive:properties>\n", ind)
					for _, p := range n.Props {
						fmt.Fprintf(b, `%s      <olive:property name="%s"%s/>`+"\n", ind, xmlEscape(p.Name), itemAttrs(p))
					}
					fmt.Fprintf(b, "%s    </olive:properties>\n", ind)
				}
				if len(n.Writes) > 0 {
					fmt.Fprintf(b, "%s    <olive:results>\n", ind)
					for _, w := range n.Writes {
						fmt.Fprintf(b, `%s      <olive:field name="%s" type="integer"/>`+"\n", ind, w)
					}
					fmt.Fprintf(b, "%s    </olive:results>\n", ind)
				}
				// "name" (the target has the same id) or "name=targetId"
				for _, o := range n.Inputs {
					name, target, ok := strings.Cut(o, "=")
					if !ok {
						target = name
					}
					fmt.Fprintf(b, `%s    <olive:dataInput name="%s" targetRef="%s"/>`+"\n", ind, name, target)
				}
				for _, o := range n.Outputs {
					name, target, ok := strings.Cut(o, "=")
					if !ok {
						target = name
					}
					fmt.Fprintf(b, `%s    <olive:dataOutput name="%s" targetRef="%s"/>`+"\n", ind, name, target)
				}
				for _, x := range n.Ext {
					fmt.Fprintf(b, "%s    %s\n", ind, x)
				}
				fmt.Fprintf(b, "%s  </bpmn:extensionElements>\n", ind)
			}
			io()
			fmt.Fprintf(b, "%s</bpmn:%s>\n", ind, tag)
		case Xor, Or:
			tag := "exclusiveGateway"
			if n.Kind == Or {
				tag = "inclusiveGateway"
			}
			def := ""
			if n.Default != "" {
				def = fmt.Sprintf(` default="%s"`, n.Default)
			}
			fmt.Fprintf(b, `%s<bpmn:%s id="%s"%s>`+"\n", ind, tag, n.ID, def)
			io()
			fmt.Fprintf(b, "%s</bpmn:%s>\n", ind, tag)
		case And:
			fmt.Fprintf(b, `%s<bpmn:parallelGateway id="%s">`+"\n", ind, n.ID)
			io()
			fmt.Fprintf(b, "%s</bpmn:parallelGateway>\n", ind)
		case EventGw:
			fmt.Fprintf(b, `%s<bpmn:eventBasedGateway id="%s">`+"\n", ind, n.ID)
			io()
			fmt.Fprintf(b, "%s</bpmn:eventBasedGateway>\n", ind)
		case Catch:
			fmt.Fprintf(b, `%s<bpmn:intermediateCatchEvent id="%s"%s>`+"\n", ind, n.ID, parAttr(n))
			io()
			evdefs()
			fmt.Fprintf(b, "%s</bpmn:intermediateCatchEvent>\n", ind)
		case Throw:
			fmt.Fprintf(b, `%s<bpmn:intermediateThrowEvent id="%s">`+"\n", ind, n.ID)
			io()
			evdefs()
			fmt.Fprintf(b, "%s</bpmn:intermediateThrowEvent>\n", ind)
		case Boundary:
			fmt.Fprintf(b, `%s<bpmn:boundaryEvent id="%s" attachedToRef="%s" cancelActivity="%v"%s>`+"\n", ind, n.ID, n.Host, n.Intr, parAttr(n))
			io()
			evdefs()
			fmt.Fprintf(b, "%s</bpmn:boundaryEvent>\n", ind)
		case Sub:
			fmt.Fprintf(b, `%s<bpmn:subProcess id="%s">`+"\n", ind, n.ID)
			io()
			g.renderScope(b, n.ID, ind+"  ")
			fmt.Fprintf(b, "%s</bpmn:subProcess>\n", ind)
		}
	}
	flows := g.Flows
	if g.FlowsReversed {
		flows = make([]*Flow, 0, len(g.Flows))
		for i := len(g.Flows) - 1; i >= 0; i-- {
			flows = append(flows, g.Flows[i])
		}
	}
	for _, f := range flows {
		if f.Scope != scope {
			continue
		}
		if f.Cond == nil {
			fmt.Fprintf(b, `%s<bpmn:sequenceFlow id="%s" sourceRef="%s" targetRef="%s"/>`+"\n", ind, f.ID, f.Src, f.Dst)
			continue
		}
		fmt.Fprintf(b, `%s<bpmn:sequenceFlow id="%s" sourceRef="%s" targetRef="%s">`+"\n", ind, f.ID, f.Src, f.Dst)
		if f.Cond.Kind == "informal" {
			fmt.Fprintf(b, `%s  <bpmn:conditionExpression id="%s_x">%s</bpmn:conditionExpression>`+"\n", ind, f.ID, condExpr(f.Cond, lang))
		} else {
			la := ""
			if f.Cond.Lang == "xpath" {
				la = fmt.Sprintf(` language="%s"`, XPathLang)
			} else if f.Cond.Lang == "expr" {
				la = fmt.Sprintf(` language="%s"`, ExprLang)
			}
			fmt.Fprintf(b, `%s  <bpmn:conditionExpression xsi:type="bpmn:tFormalExpression" id="%s_x"%s>%s</bpmn:conditionExpression>`+"\n", ind, f.ID, la, condExpr(f.Cond, lang))
		}
		fmt.Fprintf(b, "%s</bpmn:sequenceFlow>\n", ind)
	}
}

func parAttr(n *Node) string {
	if n.Par {
		return ` parallelMultiple="true"`
	}
	return ""
}

func itemAttrs(p PropItem) string {
	s := ""
	if p.Value != "" {
		s += fmt.Sprintf(` value="%s"`, xmlEscape(p.Value))
	}
	if p.Type != "" {
		s += fmt.Sprintf(` type="%s"`, p.Type)
	}
	if p.Ref != "" {
		s += fmt.Sprintf(` ref="%s"`, p.Ref)
	}
	return s
}

// Kinds returns the sorted set of node kinds in the graph (for class labels).
func (g *Graph) Kinds() []string {
	m := map[string]bool{}
	for _, n := range g.Nodes {
		m[string(n.Kind)] = true
	}
	var ks []string
	for k := range m {
		ks = append(ks, k)
	}
	sort.Strings(ks)
	return ks
}

// Eval evaluates a condition on integer variables (missing variable => false,
// as the engine's expr-lang treats an undefined variable as nil and the
// comparison as an error, i.e. flow not taken).
func (c *Cond) Eval(vars map[string]int64, objs map[string]int64) (bool, bool) {
	if c == nil {
		return true, true
	}
	var r bool
	switch c.Kind {
	case "const":
		r = c.Lit
	case "informal":
		r = true
	case "fail":
		return false, true
	case "var", "obj":
		src := vars
		if c.Kind == "obj" {
			src = objs
		}
		v, ok := src[c.Var]
		if !ok {
			return false, false
		}
		switch c.Op {
		case ">":
			r = v > c.Val
		case "<":
			r = v < c.Val
		case ">=":
			r = v >= c.Val
		case "<=":
			r = v <= c.Val
		case "==":
			r = v == c.Val
		case "!=":
			r = v != c.Val
		}
	}
	if c.And != nil {
		r2, ok := c.And.Eval(vars, objs)
		if !ok {
			return false, false
		}
		r = r && r2
	}
	return r, true
}
