package gen

import (
	"fmt"
)

// Block is a node of the block-structured program AST (DESIGN.md 2.5).
type Block struct {
	Kind    string   `json:"k"` // task seq xor and or loop condtask sub
	Kids    []*Block `json:"kids,omitempty"`
	Conds   []*Cond  `json:"conds,omitempty"` // per branch (xor/or/condtask); nil entry = unconditional
	Default int      `json:"def"`             // index of the default branch, -1 = none
	Ends    []bool   `json:"ends,omitempty"`  // or/condtask: branch ends in its own end event
	Var     string   `json:"var,omitempty"`   // loop counter / task write
	Bound   int      `json:"bound,omitempty"` // loop iterations
	Writes  []string `json:"writes,omitempty"`
	// loop: TaskExit = the counting task itself decides with two conditional flows (no exclusive split behind
	// it); ExitFirst = it lists the leaving flow before the one that goes round again
	TaskExit  bool `json:"task_exit,omitempty"`
	ExitFirst bool `json:"exit_first,omitempty"`
}

// Rand is the PRNG interface the generator needs.
type Rand interface {
	Intn(n int) int
	Bool() bool
}

// Lower turns an AST into a process graph: start -> body -> end.
func Lower(proc string, b *Block) *Graph {
	g := NewGraph(proc)
	s := g.Add(Start, "start", "")
	entry, exit, def := lower(g, b, "")
	g.Connect(s, entry, nil)
	if exit != nil {
		e := g.Add(End, "", "")
		f := g.Connect(exit, e, nil)
		if def {
			exit.Default = f.ID
		}
	}
	return g
}

func link(g *Graph, from *Node, def bool, to *Node) {
	f := g.Connect(from, to, nil)
	if def {
		from.Default = f.ID
	}
}

// lower returns the entry node, the exit node (nil when the block consumes its
// tokens itself) and whether the exit's dangling flow must be its default flow.
func lower(g *Graph, b *Block, scope string) (entry, exit *Node, exitDefault bool) {
	switch b.Kind {
	case "task":
		t := g.Add(Task, "", scope)
		for _, w := range b.Writes {
			if len(w) > 2 && w[:2] == "do" {
				// a data output: the task writes the data object of that name (declared in the process, id = name)
				t.Outputs = append(t.Outputs, w)
				known := false
				for _, o := range g.Objects {
					known = known || o.ID == w
				}
				if !known {
					g.Objects = append(g.Objects, DataObject{ID: w, Name: w})
				}
				continue
			}
			if len(w) > 2 && w[:2] == "dx" {
				// the same with a data object whose id differs from its name, next to ANOTHER data object whose id is
				// that name (ids are unique; data outputs and conditions go by the name)
				t.Outputs = append(t.Outputs, w+"=DataObject_"+w)
				known := false
				for _, o := range g.Objects {
					known = known || o.Name == w
				}
				if !known {
					g.Objects = append(g.Objects, DataObject{ID: "DataObject_" + w, Name: w}, DataObject{ID: w, Name: "decoy_" + w, Body: `{"w": 0}`})
				}
				continue
			}
			t.Writes = append(t.Writes, w)
		}
		return t, t, false
	case "seq":
		var first, last *Node
		lastDef := false
		for _, k := range b.Kids {
			e, x, d := lower(g, k, scope)
			if first == nil {
				first = e
			} else if last != nil {
				link(g, last, lastDef, e)
			}
			last, lastDef = x, d
			if x == nil {
				break
			}
		}
		return first, last, lastDef
	case "xor", "or":
		kind := Xor
		if b.Kind == "or" {
			kind = Or
		}
		split := g.Add(kind, "", scope)
		merge := g.Add(kind, "", scope)
		joins := 0
		for i, k := range b.Kids {
			var c *Cond
			if i < len(b.Conds) {
				c = b.Conds[i]
			}
			if k.Kind == "empty" {
				// a branch without any node: a sequence flow straight from the split to the merge
				f := g.Connect(split, merge, c)
				if i == b.Default {
					split.Default = f.ID
				}
				joins++
				continue
			}
			e, x, d := lower(g, k, scope)
			f := g.Connect(split, e, c)
			if i == b.Default {
				split.Default = f.ID
			}
			if x == nil {
				continue
			}
			if i < len(b.Ends) && b.Ends[i] {
				en := g.Add(End, "", scope)
				link(g, x, d, en)
				continue
			}
			link(g, x, d, merge)
			joins++
		}
		if joins == 0 {
			// nothing reaches the merge: drop it
			g.Nodes = g.Nodes[:len(g.Nodes)]
			for i, n := range g.Nodes {
				if n == merge {
					g.Nodes = append(g.Nodes[:i], g.Nodes[i+1:]...)
					break
				}
			}
			g.nidx = nil
			return split, nil, false
		}
		return split, merge, false
	case "and":
		split := g.Add(And, "", scope)
		merge := g.Add(And, "", scope)
		for _, k := range b.Kids {
			if k.Kind == "empty" {
				g.Connect(split, merge, nil)
				continue
			}
			e, x, d := lower(g, k, scope)
			g.Connect(split, e, nil)
			if x != nil {
				link(g, x, d, merge)
			}
		}
		return split, merge, false
	case "loop":
		xm := g.Add(Xor, "", scope)
		e, x, d := lower(g, b.Kids[0], scope)
		g.Connect(xm, e, nil)
		tl := g.Add(Task, "", scope)
		tl.Writes = []string{b.Var}
		link(g, x, d, tl)
		if b.TaskExit {
			// the task is requested once per iteration and takes one of its two conditional flows each time
			xj := g.Add(Xor, "", scope)
			back := &Cond{Kind: "var", Var: b.Var, Op: "<", Val: int64(b.Bound)}
			out := &Cond{Kind: "var", Var: b.Var, Op: ">=", Val: int64(b.Bound)}
			if b.ExitFirst {
				g.Connect(tl, xj, out)
				g.Connect(tl, xm, back)
			} else {
				g.Connect(tl, xm, back)
				g.Connect(tl, xj, out)
			}
			return xm, xj, false
		}
		xs := g.Add(Xor, "", scope)
		g.Connect(tl, xs, nil)
		g.Connect(xs, xm, &Cond{Kind: "var", Var: b.Var, Op: "<", Val: int64(b.Bound)})
		return xm, xs, true
	case "condtask":
		t := g.Add(Task, "", scope)
		t.Writes = b.Writes
		for i, k := range b.Kids {
			e, x, d := lower(g, k, scope)
			var c *Cond
			if i < len(b.Conds) {
				c = b.Conds[i]
			}
			g.Connect(t, e, c)
			if x != nil {
				en := g.Add(End, "", scope)
				link(g, x, d, en)
			}
		}
		return t, nil, false
	case "sub":
		sp := g.Add(Sub, "", scope)
		s := g.Add(Start, "", sp.ID)
		e, x, d := lower(g, b.Kids[0], sp.ID)
		g.Connect(s, e, nil)
		if x != nil {
			en := g.Add(End, "", sp.ID)
			link(g, x, d, en)
		}
		return sp, sp, false
	}
	panic("unknown block kind " + b.Kind)
}

// T is a convenience constructor.
func T(writes ...string) *Block { return &Block{Kind: "task", Writes: writes, Default: -1} }

// Empty is a branch without any node (only inside xor / or / and blocks).
func Empty() *Block { return &Block{Kind: "empty", Default: -1} }
func Seq(kids ...*Block) *Block { return &Block{Kind: "seq", Kids: kids, Default: -1} }

// Gen is the random program generator state.
type Gen struct {
	R      Rand
	NVars  int // number of initial boolean-ish variables v0..
	nloop  int
	Budget int // remaining activities
	NoOr   bool // do not generate inclusive blocks
	// Data: plain tasks write a variable of their own (w1, w2, ...; the k-th request writes k+1, the
	// initial value is 0) and conditions may read the variables of tasks that are certain to have
	// finished before the deciding gateway is reached (earlier siblings of an enclosing sequence
	// whose tokens have all been joined): data flows from one token to a later one, race-free.
	Data  bool
	nw    int
	avail []string
	// Fail: some conditions cannot be evaluated (they read a variable that does not exist): the engine reports an
	// error trace and treats the alternative as not true
	Fail bool
	// LoopVar: conditions inside a loop body may read the counter of an enclosing loop (0 during the first
	// iteration, k after the k-th): the same gateway decides differently on later visits. Bodies generated
	// in this mode keep all their tokens inside the iteration (no branch with an end event of its own, no
	// conditional-flow task), so nothing reads the counter while the loop's task writes it.
	LoopVar bool
	loops   []string
	// TaskLoops: loops are closed by conditional flows on the counting task itself (half of them listing the
	// leaving flow first)
	TaskLoops bool
}

// LoopVars lists the loop counters of a program.
func LoopVars(b *Block) []string {
	var out []string
	b.Walk(func(x *Block) {
		if x.Kind == "loop" {
			out = append(out, x.Var)
		}
	})
	return out
}

// WVars lists the task-written data variables (w...) of a program.
func WVars(b *Block) []string {
	var out []string
	b.Walk(func(x *Block) {
		if x.Kind == "task" {
			for _, w := range x.Writes {
				if len(w) > 1 && w[0] == 'w' {
					out = append(out, w)
				}
			}
		}
	})
	return out
}

// settled: every token that enters the block has left it through its exit (or was consumed at a join
// inside it) by the time the block's exit token continues: no branch with an end event of its own.
func settled(b *Block) bool {
	ok := true
	b.Walk(func(x *Block) {
		if x.Kind == "condtask" {
			ok = false
		}
		for _, e := range x.Ends {
			if e {
				ok = false
			}
		}
	})
	return ok
}

func (gn *Gen) cond() *Cond {
	if gn.Fail && gn.R.Intn(5) == 0 {
		return &Cond{Kind: "fail"}
	}
	if gn.LoopVar && len(gn.loops) > 0 && gn.R.Intn(3) > 0 {
		c := &Cond{Kind: "var", Var: gn.loops[gn.R.Intn(len(gn.loops))], Op: ">", Val: int64(gn.R.Intn(2))}
		if gn.R.Intn(3) == 0 {
			c.Op = "=="
		}
		return c
	}
	if gn.Data && len(gn.avail) > 0 && gn.R.Intn(2) == 0 {
		c := &Cond{Kind: "var", Var: gn.avail[gn.R.Intn(len(gn.avail))], Op: ">", Val: 0}
		if gn.R.Intn(3) == 0 {
			c.Op = "=="
		}
		return c
	}
	v := fmt.Sprintf("v%d", gn.R.Intn(gn.NVars))
	c := &Cond{Kind: "var", Var: v, Op: ">", Val: 0}
	switch gn.R.Intn(6) {
	case 0:
		c.Op, c.Val = "==", 0
	case 1:
		c.And = &Cond{Kind: "var", Var: fmt.Sprintf("v%d", gn.R.Intn(gn.NVars)), Op: "==", Val: 1}
	}
	return c
}

var kinds = []string{"xor", "and", "or", "loop", "condtask", "sub"}

// Block generates a random block of the given kind ("" = random) at depth.
// terminalOK: a condtask may be generated (it consumes its tokens).
func (gn *Gen) Block(kind string, depth int, terminalOK bool) *Block {
	if kind == "" {
		if depth <= 0 || gn.Budget <= 1 {
			kind = "task"
		} else {
			r := gn.R.Intn(10)
			switch {
			case r < 3:
				kind = "task"
			case r < 4:
				kind = "seq"
			default:
				kind = kinds[gn.R.Intn(len(kinds))]
			}
		}
	}
	if kind == "condtask" && !terminalOK {
		kind = "xor"
	}
	if kind == "or" && gn.NoOr {
		kind = "xor"
	}
	if kind == "condtask" && len(gn.loops) > 0 {
		kind = "xor"
	}
	switch kind {
	case "task":
		gn.Budget--
		if gn.Data {
			gn.nw++
			return T(fmt.Sprintf("w%d", gn.nw))
		}
		return T()
	case "seq":
		n := 2 + gn.R.Intn(2)
		b := &Block{Kind: "seq", Default: -1}
		save := gn.avail
		for i := 0; i < n; i++ {
			last := i == n-1
			k := gn.Block("", depth-1, terminalOK && last)
			b.Kids = append(b.Kids, k)
			if k.Kind == "condtask" {
				break
			}
			gn.Settle(k)
		}
		gn.avail = save
		return b
	case "xor", "or":
		n := 2 + gn.R.Intn(2)
		b := &Block{Kind: kind, Default: -1}
		if gn.R.Intn(3) > 0 {
			b.Default = gn.R.Intn(n)
		}
		for i := 0; i < n; i++ {
			b.Kids = append(b.Kids, gn.Block("", depth-1, false))
			if i == b.Default {
				b.Conds = append(b.Conds, nil)
			} else {
				b.Conds = append(b.Conds, gn.cond())
			}
			ends := false
			if kind == "or" && gn.R.Intn(5) == 0 && len(gn.loops) == 0 {
				ends = true
			}
			b.Ends = append(b.Ends, ends)
		}
		all := true
		for _, e := range b.Ends {
			all = all && e
		}
		if all {
			b.Ends[0] = false // at least one branch reaches the merge
		}
		return b
	case "and":
		n := 2 + gn.R.Intn(2)
		b := &Block{Kind: "and", Default: -1}
		for i := 0; i < n; i++ {
			b.Kids = append(b.Kids, gn.Block("", depth-1, false))
		}
		return b
	case "loop":
		gn.nloop++
		gn.Budget--
		lb := &Block{Kind: "loop", Default: -1, Var: fmt.Sprintf("cnt%d", gn.nloop), Bound: 2 + gn.R.Intn(2)}
		if gn.TaskLoops {
			lb.TaskExit = true
			lb.ExitFirst = gn.R.Bool()
			lb.Bound = 2 + gn.R.Intn(3)
		}
		if gn.LoopVar {
			gn.loops = append(gn.loops, lb.Var)
		}
		lb.Kids = []*Block{gn.Block("", depth-1, false)}
		if gn.LoopVar {
			gn.loops = gn.loops[:len(gn.loops)-1]
		}
		return lb
	case "condtask":
		gn.Budget--
		n := 2 + gn.R.Intn(2)
		b := &Block{Kind: "condtask", Default: -1}
		unc := gn.R.Intn(n) // at least one unconditional flow
		// half of them decide on a result the task itself writes (the k-th request
		// writes k+1, so "own > 0" is false before the answer is stored and true after)
		own := ""
		if gn.R.Bool() {
			gn.nloop++
			own = fmt.Sprintf("own%d", gn.nloop)
			b.Writes = []string{own}
		}
		for i := 0; i < n; i++ {
			b.Kids = append(b.Kids, gn.Block("", depth-1, false))
			switch {
			case i == unc:
				b.Conds = append(b.Conds, nil)
			case own != "" && i%2 == 0:
				b.Conds = append(b.Conds, &Cond{Kind: "var", Var: own, Op: ">", Val: 0})
			case own != "":
				b.Conds = append(b.Conds, &Cond{Kind: "var", Var: own, Op: "==", Val: 0})
			default:
				b.Conds = append(b.Conds, gn.cond())
			}
		}
		return b
	case "sub":
		return &Block{Kind: "sub", Default: -1, Kids: []*Block{gn.Block("", depth-1, true)}}
	}
	panic("bad kind")
}

// Settle makes the variables written inside k readable by conditions generated from now on (k has been
// placed in a sequence and everything generated next comes after it). The caller restores gn.avail.
func (gn *Gen) Settle(k *Block) {
	if !gn.Data || !settled(k) {
		return
	}
	gn.avail = append(append([]string(nil), gn.avail...), WVars(k)...)
}

// Avail returns / sets the readable data variables (for callers building sequences themselves).
func (gn *Gen) Avail() []string     { return gn.avail }
func (gn *Gen) SetAvail(a []string) { gn.avail = a }

// Walk visits all blocks.
func (b *Block) Walk(f func(*Block)) {
	f(b)
	for _, k := range b.Kids {
		k.Walk(f)
	}
}

// Wrap returns a copy of the AST where the n-th block (pre-order) is wrapped in
// `levels` nested sub-processes. Returns nil if n is out of range or the block
// cannot be wrapped (terminal condtask blocks are wrapped as a whole too).
func Wrap(root *Block, n, levels int) *Block {
	i := -1
	var rec func(b *Block) *Block
	rec = func(b *Block) *Block {
		i++
		me := i
		c := *b
		c.Kids = nil
		for _, k := range b.Kids {
			c.Kids = append(c.Kids, rec(k))
		}
		if me == n {
			w := &c
			for l := 0; l < levels; l++ {
				w = &Block{Kind: "sub", Default: -1, Kids: []*Block{w}}
			}
			return w
		}
		return &c
	}
	out := rec(root)
	if n > i {
		return nil
	}
	return out
}

// Count returns the number of blocks.
func (b *Block) Count() int {
	n := 0
	b.Walk(func(*Block) { n++ })
	return n
}
