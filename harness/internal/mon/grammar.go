// Package mon holds offline checkers over recorded event logs.
package mon

import (
	"fmt"

	"verif/internal/drive"
)

// Issue is a grammar violation found in a log.
type Issue struct {
	Rule string
	Msg  string
}

func key(e drive.Ev) string {
	return fmt.Sprintf("%s|%s|%s|%v|%v|%s", e.Kind, e.Node, e.Flow, e.Flows, e.SFs, e.Inst)
}

// SameOrder checks that two subscribers' logs (both subscribed before the
// instance started and never unsubscribed) are the same sequence.
func SameOrder(a, b []drive.Ev) *Issue {
	var ta, tb []drive.Ev
	for _, e := range a {
		if e.Sub >= 0 {
			ta = append(ta, e)
		}
	}
	for _, e := range b {
		if e.Sub >= 0 {
			tb = append(tb, e)
		}
	}
	n := len(ta)
	if len(tb) < n {
		n = len(tb)
	}
	for i := 0; i < n; i++ {
		if key(ta[i]) != key(tb[i]) {
			return &Issue{"subscribers-differ", fmt.Sprintf("position %d: %s vs %s", i, ta[i], tb[i])}
		}
	}
	if len(ta) != len(tb) {
		return &Issue{"subscribers-differ", fmt.Sprintf("lengths differ: %d vs %d", len(ta), len(tb))}
	}
	return nil
}

// Grammar checks the causal grammar of one subscriber's log (DESIGN C09 engine
// level). entry: node ids without incoming sequence flows (start events,
// boundary events, instantiating throw events); target: sequence flow id ->
// target node id.
func Grammar(log []drive.Ev, entry map[string]bool, target map[string]string) []Issue {
	var out []Issue
	newAt := map[string]int{}    // flow -> index of NewFlow
	termAt := map[string]int{}   // flow -> index of Termination
	at := map[string]string{}    // flow -> node it is at (tracked through Flow traces)
	visits := map[string]int{}   // node -> visits - leaves
	listed := map[string]bool{}  // flow has been listed in a Flow trace
	for i, e := range log {
		if e.Sub < 0 {
			continue
		}
		switch e.Kind {
		case "NewFlow":
			if _, dup := newAt[e.Flow]; dup {
				out = append(out, Issue{"newflow-twice", fmt.Sprintf("flow %s announced twice (%s)", e.Flow, e)})
			}
			if _, dead := termAt[e.Flow]; dead {
				out = append(out, Issue{"trace-after-termination", fmt.Sprintf("NewFlow after termination of %s", e.Flow)})
			}
			newAt[e.Flow] = i
		case "Visit":
			visits[e.Node]++
		case "Leave":
			visits[e.Node]--
			if visits[e.Node] < 0 {
				out = append(out, Issue{"leave-before-visit", fmt.Sprintf("node %s left more often than visited at %s", e.Node, e)})
				visits[e.Node] = 0
			}
		case "Flow":
			// a flow trace is sent by a flow that is at its source node: if every flow that was there has
			// terminated before (and the node is no entry node, where flows appear untracked), a terminated
			// flow went on sending traces
			if !entry[e.Node] {
				live, dead := 0, ""
				for f, pos := range at {
					if pos != e.Node {
						continue
					}
					if _, gone := termAt[f]; gone {
						dead = f
					} else {
						live++
					}
				}
				if live == 0 && dead != "" {
					out = append(out, Issue{"trace-after-termination", fmt.Sprintf("flow trace %s sent from %s after flow %s, the only one there, had terminated", e, e.Node, dead)})
				}
			}
			known := 0
			for k, f := range e.Flows {
				if _, dead := termAt[f]; dead {
					out = append(out, Issue{"trace-after-termination", fmt.Sprintf("flow %s listed in %s after its termination", f, e)})
				}
				if _, ok := newAt[f]; ok {
					known++
					pos, tracked := at[f]
					okCont := (tracked && pos == e.Node) || (!tracked && !listed[f] && entry[e.Node])
					if !okCont {
						out = append(out, Issue{"newflow-before-flowtrace", fmt.Sprintf("flow %s (at %q) was announced before the flow trace %s that creates it", f, pos, e)})
					}
				}
				listed[f] = true
				if k < len(e.SFs) {
					if t, ok := target[e.SFs[k]]; ok {
						at[f] = t
					} else {
						delete(at, f)
					}
				}
			}
			if known > 1 {
				out = append(out, Issue{"newflow-before-flowtrace", fmt.Sprintf("%d flows of %s already announced", known, e)})
			}
		case "Termination":
			if _, ok := newAt[e.Flow]; !ok {
				out = append(out, Issue{"first-trace-not-newflow", fmt.Sprintf("termination of unannounced flow %s", e.Flow)})
			}
			if _, dup := termAt[e.Flow]; dup {
				out = append(out, Issue{"trace-after-termination", fmt.Sprintf("second termination of %s", e.Flow)})
			}
			termAt[e.Flow] = i
		case "CancelFlow":
			if _, ok := newAt[e.Flow]; !ok {
				out = append(out, Issue{"first-trace-not-newflow", fmt.Sprintf("cancellation of unannounced flow %s", e.Flow)})
			}
			if _, dead := termAt[e.Flow]; dead {
				out = append(out, Issue{"trace-after-termination", fmt.Sprintf("cancellation after termination of %s", e.Flow)})
			}
		}
	}
	return out
}

// FlowKinds are the trace kinds that count as "flow traces of the instance".
var FlowKinds = map[string]bool{"NewFlow": true, "Visit": true, "Leave": true, "Flow": true,
	"Termination": true, "Completion": true, "CompletionEnd": true, "Task": true}

// Cease checks the cease-flow trace: at most/exactly once, after every other
// flow trace. Returns count and issues.
func Cease(log []drive.Ev) (int, []Issue) {
	var out []Issue
	n := 0
	seen := false
	for _, e := range log {
		if e.Sub < 0 {
			continue
		}
		if e.Kind == "CeaseFlow" {
			n++
			seen = true
			continue
		}
		if seen && FlowKinds[e.Kind] {
			out = append(out, Issue{"trace-after-cease", fmt.Sprintf("%s after the cease-flow trace", e)})
		}
	}
	if n > 1 {
		out = append(out, Issue{"cease-twice", fmt.Sprintf("%d cease-flow traces", n)})
	}
	return n, out
}

// Conservation: NewFlow count minus Termination count = live flows.
func Conservation(log []drive.Ev) (newFlows, terms int) {
	for _, e := range log {
		switch e.Kind {
		case "NewFlow":
			newFlows++
		case "Termination":
			terms++
		}
	}
	return
}
