// Package quiesce implements the label-aware goroutine census used as the
// quiescence / leak / blocked-caller / spin oracle (DESIGN.md 2.3).
//
// It relies on Go 1.26.8 printing pprof labels in runtime.Stack(all) headers
// when GODEBUG=tracebacklabels=1 (set by the worker's main before anything
// else runs).
package quiesce

import (
	"fmt"
	"runtime"
	"strings"
	"time"
)

// G is one goroutine of a snapshot.
type G struct {
	ID      string
	State   string // e.g. "chan receive", "select", "runnable"
	Labels  string // raw label text, e.g. {"vcase": "abc"}
	Frames  []string
	Files   []string // file:line for each frame (parallel to Frames)
	Created string   // "created by" function
	Self    bool     // the goroutine that took the snapshot
	Raw     string
}

// Snapshot is a consistent (stop-the-world) cut of all goroutines.
type Snapshot struct {
	Gs []G
}

var buf = make([]byte, 8<<20)

// Take takes a snapshot of all goroutines. Not safe for concurrent use.
func Take() Snapshot {
	for {
		n := runtime.Stack(buf, true)
		if n < len(buf) {
			return Parse(string(buf[:n]))
		}
		buf = make([]byte, 2*len(buf))
	}
}

// Parse parses the text of runtime.Stack(all=true).
func Parse(text string) Snapshot {
	var s Snapshot
	blocks := strings.Split(text, "\n\n")
	for bi, b := range blocks {
		b = strings.TrimSpace(b)
		if !strings.HasPrefix(b, "goroutine ") {
			continue
		}
		lines := strings.Split(b, "\n")
		hdr := lines[0]
		g := G{Raw: b, Self: bi == 0}
		// goroutine 18 [select, 2 minutes labels:{"case": "abc"}]:
		rest := strings.TrimPrefix(hdr, "goroutine ")
		sp := strings.IndexByte(rest, ' ')
		if sp < 0 {
			continue
		}
		g.ID = rest[:sp]
		lb := strings.IndexByte(rest, '[')
		rb := strings.LastIndexByte(rest, ']')
		if lb < 0 || rb < lb {
			continue
		}
		inner := rest[lb+1 : rb]
		if i := strings.Index(inner, " labels:"); i >= 0 {
			g.Labels = inner[i+len(" labels:"):]
			inner = inner[:i]
		}
		// strip ", N minutes" and ", locked to thread" etc.
		if i := strings.Index(inner, ","); i >= 0 {
			inner = inner[:i]
		}
		g.State = strings.TrimSpace(inner)
		for i := 1; i < len(lines); i++ {
			l := lines[i]
			if strings.HasPrefix(l, "created by ") {
				g.Created = strings.TrimPrefix(l, "created by ")
				break
			}
			if strings.HasPrefix(l, "\t") {
				if len(g.Files) < len(g.Frames) {
					f := strings.TrimSpace(l)
					if j := strings.Index(f, " +0x"); j >= 0 {
						f = f[:j]
					}
					g.Files = append(g.Files, f)
				}
				continue
			}
			// function line: strip args
			fn := l
			if j := strings.LastIndexByte(fn, '('); j > 0 {
				fn = fn[:j]
			}
			// keep Files parallel
			for len(g.Files) < len(g.Frames) {
				g.Files = append(g.Files, "")
			}
			g.Frames = append(g.Frames, fn)
		}
		for len(g.Files) < len(g.Frames) {
			g.Files = append(g.Files, "")
		}
		s.Gs = append(s.Gs, g)
	}
	return s
}

// HasLabel reports whether the goroutine carries label key=value.
func (g *G) HasLabel(key, value string) bool {
	return strings.Contains(g.Labels, fmt.Sprintf("%q: %q", key, value))
}

// Blocked reports whether the goroutine is in a state from which only another
// goroutine (or the driver) can wake it.
func (g *G) Blocked() bool {
	st := g.State
	switch {
	case strings.HasPrefix(st, "chan receive"),
		strings.HasPrefix(st, "chan send"),
		strings.HasPrefix(st, "select"),
		strings.HasPrefix(st, "sync."):
		return true
	}
	// NOT blocked: plain "semacquire". The runtime parks allocating goroutines
	// with that reason while a GC cycle starts (observed: a relay goroutine and a
	// flow tracker in semacquire inside mallocgc while all others were blocked,
	// 14 traces arrived afterwards) and wakes them itself. The sync package's
	// own waits have dedicated reasons (sync.Mutex.Lock, sync.WaitGroup.Wait, ...).
	return false
}

// IsDriver reports whether any call frame belongs to the harness module.
func (g *G) IsDriver() bool {
	for _, f := range g.Frames {
		if strings.HasPrefix(f, "verif/") || strings.HasPrefix(f, "main.") {
			return true
		}
	}
	return false
}

// InFunc reports whether any frame's function name contains sub.
func (g *G) InFunc(sub string) bool {
	for _, f := range g.Frames {
		if strings.Contains(f, sub) {
			return true
		}
	}
	return false
}

// TopRepoFrame returns the innermost frame located under /repo/.
func (g *G) TopRepoFrame() string {
	for i, f := range g.Files {
		if strings.HasPrefix(f, "/repo/") {
			return g.Frames[i]
		}
	}
	return ""
}

// Case returns the goroutines of one labelled case (excluding the snapshotter).
func (s *Snapshot) Case(label string) []G {
	var out []G
	for _, g := range s.Gs {
		if g.Self {
			continue
		}
		if g.HasLabel("vcase", label) {
			out = append(out, g)
		}
	}
	return out
}

// Result of waiting for quiescence.
type Result struct {
	Quiescent bool
	Snapshots int
	Gs        []G // goroutines of the case at the last snapshot
	// Spinning: the point was accepted although an engine goroutine never blocks: it stayed runnable in
	// this engine function over the whole sampling window while everything else was blocked and the
	// trace stream was silent (a busy loop makes no progress the driver could wait for)
	Spinning string
}

// SpinSettled decides, after a wait has expired, whether the case is settled except for engine goroutines
// that spin: over 40 samples (5 ms apart) progress() does not change (no trace arrives), extra() holds, no
// driver goroutine is active, and in at least 80 % of the samples some engine goroutine is runnable (a busy
// loop, possibly bouncing between two goroutines, e.g. a caller retrying a request its peer ignores). The
// workloads contain no real timers and no computation of that length, so 200 ms of invisible activity is a
// spin. Returns the engine function seen runnable most often ("" = not settled).
func SpinSettled(label string, extra Extra, progress func() int64) (string, []G) {
	const samples = 40
	hot := map[string]int{}
	active := 0
	before := progress()
	var last []G
	for i := 0; i < samples; i++ {
		time.Sleep(5 * time.Millisecond)
		if extra != nil && !extra() {
			return "", nil
		}
		if progress() != before {
			return "", nil
		}
		snap := Take()
		gs := snap.Case(label)
		last = gs
		any := false
		for j := range gs {
			g := &gs[j]
			if g.Blocked() {
				continue
			}
			if g.IsDriver() {
				return "", nil
			}
			any = true
			if fn := g.TopRepoFrame(); fn != "" {
				hot[fn]++
			}
		}
		if any {
			active++
		}
	}
	if progress() != before || active < samples*8/10 {
		return "", nil
	}
	best := ""
	for fn, n := range hot {
		if best == "" || n > hot[best] || (n == hot[best] && fn < best) {
			best = fn
		}
	}
	if best == "" {
		best = "unknown"
	}
	return best, last
}

// Extra lets the driver add conditions (e.g. subscriber channel empty).
type Extra func() bool

// Wait samples until every goroutine of the case is blocked and extra() holds,
// or until the (generous, wall-clock) watchdog expires, which yields
// Quiescent=false — an inconclusive outcome, never a verdict by itself.
func Wait(label string, watchdog time.Duration, extra Extra) Result {
	deadline := time.Now().Add(watchdog)
	delay := 20 * time.Microsecond
	var res Result
	stable := 0
	for {
		runtime.Gosched()
		if extra == nil || extra() {
			snap := Take()
			res.Snapshots++
			gs := snap.Case(label)
			res.Gs = gs
			all := true
			for i := range gs {
				if !gs[i].Blocked() {
					all = false
					break
				}
			}
			if all && (extra == nil || extra()) {
				stable++
				if stable >= 2 {
					res.Quiescent = true
					return res
				}
				continue
			}
			stable = 0
		}
		if time.Now().After(deadline) {
			return res
		}
		time.Sleep(delay)
		if delay < 2*time.Millisecond {
			delay *= 2
		}
	}
}

// Engine returns the engine goroutines (no harness frame) among gs.
func Engine(gs []G) []G {
	var out []G
	for _, g := range gs {
		if !g.IsDriver() {
			out = append(out, g)
		}
	}
	return out
}

// DriverIn returns driver goroutines having a frame containing fn.
func DriverIn(gs []G, fn string) []G {
	var out []G
	for _, g := range gs {
		if g.IsDriver() && g.InFunc(fn) {
			out = append(out, g)
		}
	}
	return out
}

// Summary renders a short description of goroutines (top repo frame + state).
func Summary(gs []G) []string {
	var out []string
	for _, g := range gs {
		top := g.TopRepoFrame()
		if top == "" && len(g.Frames) > 0 {
			top = g.Frames[0]
		}
		out = append(out, fmt.Sprintf("%s[%s]", top, g.State))
	}
	return out
}
