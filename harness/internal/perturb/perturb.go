// Package perturb installs the handler behind pkg/verifhook.Point: it counts
// hits per site (coverage evidence) and, with a per-case probability, yields or
// sleeps a few hundred microseconds to widen interleavings (DESIGN.md 2.7).
//
// The handler deliberately uses no lock and, in race mode, no shared atomics:
// synchronisation inside the handler would add happens-before edges between
// engine goroutines and hide the very races C17 looks for.
package perturb

import (
	"math/rand/v2"
	"runtime"
	"sort"
	"sync"
	"sync/atomic"
	"time"

	"github.com/olive-io/bpmn/v2/pkg/verifhook"
)

// RaceMode disables hit counting (set by race workers).
var RaceMode = false

var (
	prob     atomic.Uint32 // probability in 1/1000
	maxSleep atomic.Uint32 // microseconds
	only     atomic.Pointer[map[string]uint32]

	mu     sync.Mutex
	counts = map[string]*atomic.Int64{}
	pend   atomic.Int64 // perturbation sleeps in flight
)

// Sites lists the instrumentation points compiled into /repo (kept in sync with
// MANIFEST.hooks); used to pre-register counters so the handler never locks.
var Sites = []string{
	"tracer.bcast", "tracer.sub", "tracer.unsub", "tracer.send", "relay.forward",
	"flow.loop", "flow.action", "flow.fork",
	"gw.parallel.next", "gw.exclusive.next", "gw.exclusive.report",
	"gw.inclusive.next", "gw.inclusive.tracker", "gw.inclusive.activity",
	"ebg.cas", "ebg.won",
	"act.relay", "act.cancel", "task.do", "task.process", "task.sent",
	"catch.consume", "catch.event",
	"process.started", "process.monitor", "process.wait",
	"pset.afterstart", "pset.beforesub", "pset.waited",
	"sub.subscribed", "timer.cycle", "timer.fire",
}

func init() {
	for _, s := range Sites {
		counts[s] = new(atomic.Int64)
	}
}

// Install sets the handler (idempotent).
func Install() {
	verifhook.Set(handle)
}

// rendezvous: goroutines hitting the site wait (spinning, bounded) until n of
// them have arrived, so that they leave it at the same instant. Used to align
// competing flows in front of a compare-and-swap (C06). Not used in race mode.
var (
	rvSite  atomic.Pointer[string]
	rvN     atomic.Int64
	rvCount atomic.Int64
)

// Rendezvous makes groups of n goroutines leave `site` together ("" or n<2 disables).
func Rendezvous(site string, n int) {
	rvCount.Store(0)
	rvN.Store(int64(n))
	if site == "" || n < 2 {
		rvSite.Store(nil)
		return
	}
	rvSite.Store(&site)
}

// trigger: the n-th goroutine reaching a site runs a callback (e.g. cancels the
// instance's context) and then optionally pauses, so that the rest of the
// instance reacts to the callback's effect before this goroutine goes on.
type trigger struct {
	site  string
	nth   int64
	hits  atomic.Int64
	f     func()
	pause time.Duration
	fired atomic.Bool
}

var trig atomic.Pointer[trigger]

// Trigger arms f at the nth hit of site (nth >= 1); pause is slept by the
// hitting goroutine after f returned. Trigger("", ...) disarms. Returns a
// function reporting whether the trigger fired. Not used in race mode.
func Trigger(site string, nth int, pause time.Duration, f func()) func() bool {
	if site == "" {
		trig.Store(nil)
		return func() bool { return false }
	}
	t := &trigger{site: site, nth: int64(nth), f: f, pause: pause}
	trig.Store(t)
	return func() bool { return t.fired.Load() }
}

func handle(site string) {
	if !RaceMode {
		if c := counts[site]; c != nil {
			c.Add(1)
		}
		if t := trig.Load(); t != nil && t.site == site {
			if t.hits.Add(1) == t.nth {
				t.fired.Store(true)
				t.f()
				if t.pause > 0 {
					time.Sleep(t.pause)
				}
			}
		}
		if s := rvSite.Load(); s != nil && *s == site {
			n := rvN.Load()
			k := rvCount.Add(1)
			target := ((k-1)/n + 1) * n
			for spins := 0; rvCount.Load() < target && spins < 200000; spins++ {
			}
			return
		}
	}
	p := prob.Load()
	if m := only.Load(); m != nil {
		q, ok := (*m)[site]
		if !ok {
			return
		}
		p = q
	}
	if p == 0 {
		return
	}
	r := rand.Uint64()
	if uint32(r%1000) >= p {
		return
	}
	r >>= 10
	if r&1 == 0 {
		runtime.Gosched()
		return
	}
	ms := maxSleep.Load()
	if ms == 0 {
		ms = 200
	}
	d := time.Duration(10+(r>>1)%uint64(ms)) * time.Microsecond
	time.Sleep(d)
}

// Configure sets the global probability (0..1) for all sites and max sleep.
func Configure(p float64, maxSleepUs int) {
	only.Store(nil)
	prob.Store(uint32(p * 1000))
	maxSleep.Store(uint32(maxSleepUs))
}

// ConfigureSites perturbs only the given sites with their own probabilities.
func ConfigureSites(sites map[string]float64, maxSleepUs int) {
	m := map[string]uint32{}
	for k, v := range sites {
		m[k] = uint32(v * 1000)
	}
	only.Store(&m)
	maxSleep.Store(uint32(maxSleepUs))
}

// Off disables perturbation (counting continues).
func Off() { Configure(0, 0) }

// Counts returns a copy of the hit counters.
func Counts() map[string]int64 {
	out := map[string]int64{}
	for k, c := range counts {
		if v := c.Load(); v > 0 {
			out[k] = v
		}
	}
	return out
}

// Diff returns after-before for counters.
func Diff(before, after map[string]int64) map[string]int64 {
	out := map[string]int64{}
	for k, v := range after {
		if d := v - before[k]; d > 0 {
			out[k] = d
		}
	}
	return out
}

// Keys returns sorted keys.
func Keys(m map[string]int64) []string {
	ks := make([]string, 0, len(m))
	for k := range m {
		ks = append(ks, k)
	}
	sort.Strings(ks)
	return ks
}
